"""C10 harness: real PyramidIO.update_image by several simulated processes on one tile under
deterministic schedules; traces replayed through the Lean lock model; real-process stress."""
import multiprocessing as mp
import os
import shutil
import sys
import tempfile
import warnings

import numpy as np

from .common import Harness, lean_driver, diff_streams
from .. import simmp


def make_tracing_pio(base, fmt, state):
    """a PyramidIO whose reads and writes are bracketed by scheduling points; a file that is being
    written is 'partial' between write-begin and write-end"""
    from toasty.pyramid import PyramidIO

    class TracingPIO(PyramidIO):
        def read_image(self, pos, default="none", masked_mode=None, format=None):
            simmp.step_point("read-begin")
            img = super().read_image(pos, default=default, masked_mode=masked_mode, format=format)
            simmp.step_point("read-end")
            key = (pos.n, pos.x, pos.y)
            if state["partial"].get(key):
                state["partial_reads"] += 1
            return img

        def write_image(self, pos, image, **kw):
            key = (pos.n, pos.x, pos.y)
            simmp.step_point("write-begin")
            state["partial"][key] = True
            super().write_image(pos, image, **kw)
            simmp.step_point("write-end")
            state["partial"][key] = False
    return TracingPIO(base, default_format=fmt)


def to_labels(trace):
    out, unknown = [], []
    m = {"lock": "lk", "unlock": "ul", "read-begin": "rb", "read-end": "re", "write-begin": "wb", "write-end": "we"}
    for line in trace:
        t = line.split()
        if t[0].startswith("W") and t[1] in m:
            out.append(f"{m[t[1]]}:{int(t[0][1:]) - 1}")
        elif t[0] == "M" or t[1] == "begin":
            continue
        else:
            unknown.append(line)
    return out, unknown


def scenario(n, mode, fmt, base, state, formats=None, reps=1):
    """n updaters of tile (1,0,0); mode 'disjoint' (own rows), 'additive' (all +1 on the same pixels)"""
    from toasty.image import Image, ImageMode
    from toasty.pyramid import Pos
    pio = make_tracing_pio(base, fmt, state)
    pos = Pos(1, 0, 0)

    def updater(i):
        kw = {}
        if formats is not None:
            kw["format"] = formats[i]
        for _rep in range(reps):
            with pio.update_image(pos, masked_mode=ImageMode.F32, default="masked", **kw) as basis:
                a = basis.asarray()
                if mode == "disjoint":
                    a[10 * i:10 * i + 10, :] = float(i + 1)
                else:
                    cur = np.nan_to_num(a[:8, :8], nan=0.0)
                    a[:8, :8] = cur + 1.0
    import multiprocessing as mpx
    procs = [mpx.Process(target=updater, args=(i,)) for i in range(n)]
    for p in procs:
        p.start()
    for p in procs:
        p.join()
    return pio, pos


def check_final(pio, pos, n, mode, reps=1):
    with warnings.catch_warnings():
        warnings.simplefilter("ignore")
        img = pio.read_image(pos)
    if img is None:
        return "the tile does not exist after the updates"
    a = img.asarray()
    if mode == "disjoint":
        missing = [i for i in range(n) if not np.all(a[10 * i:10 * i + 10, :] == float(i + 1))]
        if missing:
            return f"the contributions of updaters {missing} are missing from the final tile"
    else:
        if not np.all(a[:8, :8] == float(n * reps)):
            return f"additive updates lost: final value {float(np.nanmax(np.nan_to_num(a[:8, :8])))} instead of {float(n * reps)}"
    return None


def caller_scenario(base, nimg, par, chooser, rng, fork_copy=False):
    """`nimg` FITS pieces of one mosaic that fits into the single level-0 tile, tiled by the real
    MultiTanProcessor serially (reference) and with `par` simulated workers; returns (verdict, sim)"""
    from . import c09
    import toasty.par_util
    toasty.par_util.SHOW_INFORMATIONAL_MESSAGES = False
    from toasty import collection, multi_tan
    from toasty.builder import Builder
    from toasty.pyramid import PyramidIO, Pos
    os.makedirs(base, exist_ok=True)
    w, hgt = 60, 48
    paths = []
    for i in range(nimg):
        data = np.full((hgt, w), float(i + 1), dtype=np.float32) + np.arange(w, dtype=np.float32)[None, :] / 1000.0
        pth = os.path.join(base, f"in{i}.fits")
        c09.write_fits(pth, data, 1 - i * w, 1, 1.0 / 3600, bottom_up=bool(i % 2))
        paths.append(pth)

    def build(out_dir, tracing, state):
        with warnings.catch_warnings():
            warnings.simplefilter("ignore")
            coll = collection.SimpleFitsCollection(paths)
            proc = multi_tan.MultiTanProcessor(coll)
            pio = make_tracing_pio(out_dir, "npy", state) if tracing else PyramidIO(out_dir, default_format="npy")
            proc.compute_global_pixelization(Builder(pio))
        return proc, pio
    state = {"partial": {}, "partial_reads": 0}
    with warnings.catch_warnings():
        warnings.simplefilter("ignore")
        proc_s, pio_s = build(os.path.join(base, "serial"), False, state)
        proc_s.tile(pio_s, parallel=1)
        ref = pio_s.read_image(Pos(0, 0, 0))
        proc_p, pio_p = build(os.path.join(base, "par"), True, state)

        def job():
            with warnings.catch_warnings():
                warnings.simplefilter("ignore")
                proc_p.tile(pio_p, parallel=par, cli_progress=False)          # the public entry point (resolves the parallelism, cleans the lock files)
        sim = simmp.simulate(job, chooser, max_steps=6000, hang_window=300, fork_copy=fork_copy)
    bad = None
    if sim.outcome != "ok":
        bad = f"did not complete ({sim.outcome}{': ' + repr(sim.main.exc) if sim.main.exc else ''})"
    elif ref is None:
        bad = "the serial reference wrote no tile"
    else:
        with warnings.catch_warnings():
            warnings.simplefilter("ignore")
            got = PyramidIO(os.path.join(base, "par"), default_format="npy").read_image(Pos(0, 0, 0))
        if got is None:
            bad = "no tile (0,0,0) after the parallel run"
        else:
            a, b = got.asarray(), ref.asarray()
            diff = ~((a == b) | (np.isnan(a) & np.isnan(b)))
            if diff.any():
                lost = sorted(set(int(v) for v in b[diff & ~np.isnan(b)].astype(int)))
                bad = f"{int(diff.sum())} pixels of tile (0,0,0) differ from the serial result (contributions of image(s) {lost} lost or altered)"
            elif state["partial_reads"]:
                bad = f"{state['partial_reads']} read(s) observed a partially written tile"
    shutil.rmtree(base, ignore_errors=True)
    return bad, sim


def _stress_target(base, nproc, nupd):
    if True:
        from toasty.pyramid import PyramidIO, Pos
        from toasty.image import ImageMode
        pio = PyramidIO(base, default_format="npy")

        barrier = mp.Barrier(nproc)

        def work():
            # first an update that contributes nothing (an input whose piece of this tile is entirely undefined): if the tile does not
            # exist yet it still does not afterwards — and nothing about "it was absent" may be remembered for the next update
            with pio.update_image(Pos(2, 1, 3), masked_mode=ImageMode.F32, default="masked") as basis:
                pass
            try:
                barrier.wait(20)            # every process has seen the tile absent before any of them writes it
            except Exception:
                pass
            for _ in range(nupd):
                with pio.update_image(Pos(2, 1, 3), masked_mode=ImageMode.F32, default="masked") as basis:
                    a = basis.asarray()
                    a[:4, :4] = np.nan_to_num(a[:4, :4], nan=0.0) + 1.0
        ps = [mp.Process(target=work) for _ in range(nproc)]
        for p in ps:
            p.start()
        for p in ps:
            p.join()
        a = pio.read_image(Pos(2, 1, 3)).asarray()
        return float(a[0, 0])


def main():
    h = Harness("C10")
    rng = h.rng
    h.rule = ("2-4 updaters of one tile through the real update_image (disjoint rows or additive on the same pixels; npy/fits; optionally different `format` arguments), "
              "random schedules over lock / read / write / unlock steps and bounded exhaustive enumeration for 2 updaters; traces replayed through the Lean lock model; "
              "real-process stress; non-trivial = schedule in which a second updater reaches its lock attempt before the first released; distinct by trace")
    root = tempfile.mkdtemp(prefix="vfc10_")
    lines, py = [], []
    k = 0
    try:
        def one(n, mode, fmt, chooser, formats=None, reps=1, yield_after_unlock=False):
            nonlocal k
            k += 1
            base = os.path.join(root, f"s{k}")
            state = {"partial": {}, "partial_reads": 0}
            box = {}

            def job():
                box["pio"], box["pos"] = scenario(n, mode, fmt, base, state, formats, reps)
            sim = simmp.simulate(job, chooser, max_steps=4000, hang_window=200, yield_after_unlock=yield_after_unlock)
            bad = None
            if sim.outcome != "ok":
                bad = f"did not complete ({sim.outcome}{': ' + repr(sim.main.exc) if sim.main.exc else ''})"
            else:
                bad = check_final(box["pio"], box["pos"], n, mode, reps)
                if not bad and state["partial_reads"]:
                    bad = f"{state['partial_reads']} read(s) observed a partially written tile"
                locks = [f for f in os.listdir(os.path.join(base, "1", "0"))] if os.path.isdir(os.path.join(base, "1", "0")) else []
            shutil.rmtree(base, ignore_errors=True)
            return sim, bad, state

        n_rand = 250 if h.deep else 70
        for si in range(n_rand):
            n = rng.choice([2, 2, 3, 4])
            mode = rng.choice(["disjoint", "additive"])
            fmt = rng.choice(["npy", "fits"])
            formats = None
            chooser = simmp.RandomChooser(rng.randrange(2 ** 31), timeout_weight=0.1)
            if si % 5 == 4:
                chooser = simmp.PCTChooser(rng.randrange(2 ** 31), depth=rng.choice([2, 3, 4]))
            reps = 2 if si % 4 == 3 else 1            # several updates of the tile by one process
            sim, bad, state = one(n, mode, fmt, chooser, formats, reps)
            if bad:
                h.violation(f"lost:{mode}", f"{n} updaters x {reps} update(s) each ({mode}, {fmt}) under a random schedule: {bad}", input={"n": n, "mode": mode, "reps": reps, "choices": sim.choices[:300], "trace": sim.trace[:80]}, observed=bad)
            labels, unknown = to_labels(sim.trace)
            # non-trivial: some lock attempt while another holds it = a 'lock' label whose predecessor region is open
            depth, contended = 0, False
            for l in labels:
                if l.startswith("lk"):
                    depth += 1
                elif l.startswith("ul"):
                    depth -= 1
            first_unlock = next((i for i, l in enumerate(sim.trace) if " unlock " in l), len(sim.trace))
            begun = sum(1 for l in sim.trace[:first_unlock] if l.endswith(" begin"))
            h.case(tuple(sim.choices) if begun >= 2 else None)
            h.count("updaters", n)
            h.count("mode", mode)
            h.count("updates_per_process", reps)
            if sim.outcome == "ok" and not unknown and reps == 1:
                lines.append(f"lock {n} " + " ".join(labels))
                order = [int(l.split(":")[1]) for l in labels if l.startswith("we")]
                py.append(f"ok file={','.join(map(str, order))} done=true partial_reads={state['partial_reads']}")
                h.traces += 1
            if si < 2:
                h.sample({"n": n, "mode": mode, "trace": sim.trace[:20]})
        # ---- a second batch with a scheduling point right AFTER every lock release (a process pre-empted between releasing the lock and
        # its next statement): whatever an updater does once it is out of the region must not disturb the others.  Judged by the final
        # tile only (these traces have a step the Lean model does not have, so they are not replayed)
        for si in range(120 if h.deep else 40):
            n = rng.choice([3, 3, 4])
            mode = rng.choice(["disjoint", "additive"])
            chooser = simmp.RandomChooser(rng.randrange(2 ** 31), timeout_weight=0.1) if si % 3 else simmp.PCTChooser(rng.randrange(2 ** 31), depth=rng.choice([2, 3, 4]))
            reps = 2 if si % 2 else 1
            sim, bad, state = one(n, mode, "npy", chooser, None, reps, yield_after_unlock=True)
            h.case(("after-release",) + tuple(sim.choices))
            h.count("after-release-batch", f"{n} updaters")
            if bad:
                h.violation(f"lost:{mode}:after-release", f"{n} updaters x {reps} update(s) each ({mode}, npy), processes pre-emptible right after releasing the lock, random schedule: {bad}",
                            input={"n": n, "mode": mode, "reps": reps, "choices": sim.choices[:300], "trace": sim.trace[:80]}, observed=bad)
                break
        # exhaustive for two updaters
        budget = 3000 if h.deep else 400
        nruns = 0

        def make(chooser):
            sim, bad, state = one(2, "additive", "npy", chooser)
            return sim, bad
        for choices, sim, verdict in simmp.explore(make, max_runs=budget, max_depth=80):
            nruns += 1
            if verdict:
                h.violation("lost:additive", f"2 updaters (additive, npy), enumerated schedule #{nruns}: {verdict}", input={"choices": choices, "trace": sim.trace[:60]})
                break
        h.case(("exhaustive", nruns), n=nruns)
        h.count("exhaustive_runs", nruns)
        # a caller of the interface under contention: the real parallel multi-TAN tiler, several images landing in ONE
        # tile, its workers interleaved at every lock / read / write / queue step; the final tile must be the serial one
        try:
            n_call = 120 if h.deep else 72
            for ci in range(n_call):
                nimg = rng.choice([2, 3, 4])
                par = rng.choice([2, 3, 3])
                if ci % 3 == 2:
                    # a worker put to sleep right after it has taken a tile's lock: the others finish, wind down, or queue up behind it
                    chooser, cname = simmp.DelayAfterChooser(rng.randrange(2 ** 31), kinds=("lock",), prob=0.5, max_sleep=60, timeouts_while_asleep=True), "holder-delayed"
                elif ci % 2 == 0:
                    chooser, cname = simmp.PCTChooser(rng.randrange(2 ** 31), depth=rng.choice([2, 3, 4])), "pct"
                else:
                    chooser, cname = simmp.RandomChooser(rng.randrange(2 ** 31), timeout_weight=0.1), "random"
                bad, sim = caller_scenario(os.path.join(root, f"call{ci}"), nimg, par, chooser, rng)
                h.case(("caller", nimg, par, tuple(sim.choices[:200])))
                h.count("caller", f"multi_tan:{nimg}img:{par}w:{cname}")
                if bad:
                    h.violation("caller:multi_tan", f"parallel multi-TAN tiling of {nimg} images into one tile with {par} workers under a {cname} schedule: {bad}",
                                input={"images": nimg, "workers": par, "choices": sim.choices[:400], "trace": sim.trace[:120]}, observed=bad)
        except Exception:
            import traceback
            h.corr_fail("caller-run", {"error": traceback.format_exc()[-1500:]})
        # real processes
        from .common import run_isolated
        base = os.path.join(root, "stress")
        nproc, nupd = (8, 25) if h.deep else (6, 12)
        st, r = run_isolated(_stress_target, (base, nproc, nupd), 180)
        if st == "hang":
            h.violation("stress:hang", f"{nproc} real processes x {nupd} updates did not finish in 180 s", input=[nproc, nupd])
        else:
            if st != "ok" or r != float(nproc * nupd):
                h.violation("stress:lost", f"{nproc} real processes x {nupd} additive updates: final value {r}, expected {nproc * nupd}", input=[nproc, nupd])
        h.case(("stress", nproc, nupd))
        out = lean_driver(lines)
        diff_streams(h, "trace-replay", [l[:200] for l in lines], py, out)
    except Exception:
        import traceback
        h.corr_fail("trace-replay", {"error": traceback.format_exc()[-1500:]})
    finally:
        shutil.rmtree(root, ignore_errors=True)
    return h.finish()


if __name__ == "__main__":
    sys.exit(main())
