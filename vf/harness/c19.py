"""C19 harness: a callback / per-item worker body raises at one item; every parallel code path must
fail visibly (exception in the caller), never return normally, never hang — under deterministic
schedules (simmp) and with real processes; serial mode as the reference."""
import multiprocessing as mp
import os
import sys

from .common import Harness
from . import pyrgen
from .. import simmp
from . import c03


class Boom(Exception):
    pass


# the class of the injected failure is varied: error handling that singles out some classes (e.g. treats OSError or
# ValueError as "the queue was closed") must not hide them
EXC_CLASSES = [Boom, ValueError, OSError, RuntimeError, KeyError, ZeroDivisionError, EOFError]
_EXC = {"cls": Boom}


_COUNTER = {"n": 0}
_WALK_DEPTH = {"d": 2}


class FailImage(c03.StubImage):
    """picklable stub image whose first use by a worker raises when selected by label or by arrival index"""

    def __init__(self, label, fail_at):
        super().__init__(label, [])
        self.fail_at = fail_at

    def _touch(self):
        simmp.step_point("cb", self.sim_label)
        k = _COUNTER["n"]
        _COUNTER["n"] += 1
        if (self.fail_at == "all" or k == self.fail_at or self.sim_label == self.fail_at
                or (isinstance(self.fail_at, frozenset) and (self.sim_label in self.fail_at or k in self.fail_at))):
            raise _EXC["cls"](f"failure injected at {self.sim_label}")

    def get_parity_sign(self):
        self._touch()
        return -1

    def asarray(self):
        self._touch()
        return None


def run_stage(stage, par, fail_at, chooser=None, real=False):
    """returns (kind, detail): kind in ok | raised | hang | other"""
    log = []
    count = {"n": 0}

    def maybe_fail(label):
        k = count["n"]
        count["n"] += 1
        log.append(label)
        if fail_at == "all" or k == fail_at or label == fail_at or (isinstance(fail_at, frozenset) and (label in fail_at or k in fail_at)):
            raise _EXC["cls"](f"failure injected at {label}")

    if stage == "visit":
        case = pyrgen.PyrCase(2, "g")

        def fn():
            def cb(pos, tile):
                simmp.step_point("cb", f"({pos.n},{pos.x},{pos.y})")
                maybe_fail((pos.n, pos.x, pos.y))
            case.build().visit_leaves(cb, parallel=par)
    elif stage == "walk":
        case = pyrgen.PyrCase(_WALK_DEPTH["d"], "g")

        def fn():
            def cb(pos):
                simmp.step_point("cb-begin", f"({pos.n},{pos.x},{pos.y})")
                maybe_fail((pos.n, pos.x, pos.y))
            case.build().walk(cb, parallel=par)
    elif stage == "transform":
        from toasty import transform

        def fn():
            def do_one(buf, pos, pio_in, pio_out):
                simmp.step_point("cb", f"({pos.n},{pos.x},{pos.y})")
                maybe_fail((pos.n, pos.x, pos.y))
            transform._do_a_transform(None, 1, lambda: None, do_one, parallel=par)
    else:
        def fn():
            _COUNTER["n"] = 0
            imgs = [FailImage(f"img{i}", fail_at) for i in range(4)]
            if stage == "multi_tan":
                from toasty import multi_tan
                proc = multi_tan.MultiTanProcessor.__new__(multi_tan.MultiTanProcessor)
                proc._collection = c03.StubCollection(imgs)
                proc._descs = [c03.StubDesc() for _ in imgs]
                proc._tiling = c03.StubTiling()
                proc.tile(c03.StubPio(), parallel=par, cli_progress=False)
            else:
                from toasty import multi_wcs
                proc = multi_wcs.MultiWcsProcessor.__new__(multi_wcs.MultiWcsProcessor)
                proc._collection = c03.StubCollection(imgs)
                proc._descs = [c03.StubDesc() for _ in imgs]
                proc._combined_wcs = None
                proc._tiling = c03.StubTiling()
                proc.tile(c03.StubPio(), lambda *a, **k: None, parallel=par, cli_progress=False)
    if real:
        try:
            fn()
            return "ok", f"{len(log)} items seen"
        except BaseException as e:  # noqa
            return "raised", f"{type(e).__name__}"
    sim = simmp.simulate(fn, chooser, max_steps=20000, hang_window=300)
    if sim.outcome == "exception":
        return "raised", f"{type(sim.main.exc).__name__}: {str(sim.main.exc)[:60]}", sim
    if sim.outcome == "ok":
        return "ok", "returned normally", sim
    return "hang", sim.outcome, sim


class FailLoadCollection(c03.StubCollection):
    """a collection whose `images()` generator raises while loading image number `fail_k` (the error happens in the
    parent, between two hand-offs, not in a worker)"""

    def __init__(self, imgs, fail_k, exc):
        super().__init__(imgs)
        self.fail_k, self.exc = fail_k, exc

    def images(self):
        for k, im in enumerate(self.imgs):
            if k == self.fail_k:
                raise self.exc(f"cannot load input {k}")
            yield im


def run_load_failure(stage, par, nimg, fail_k, exc, chooser=None):
    """multi-image tiling whose input number `fail_k` cannot be loaded; returns (kind, detail[, sim])"""
    def fn():
        imgs = [FailImage(f"img{i}", None) for i in range(nimg)]
        coll = FailLoadCollection(imgs, fail_k, exc)
        if stage == "multi_tan":
            from toasty import multi_tan
            proc = multi_tan.MultiTanProcessor.__new__(multi_tan.MultiTanProcessor)
            proc._collection = coll
            proc._descs = [c03.StubDesc() for _ in imgs]
            proc._tiling = c03.StubTiling()
            proc.tile(c03.StubPio(), parallel=par, cli_progress=False)
        else:
            from toasty import multi_wcs
            proc = multi_wcs.MultiWcsProcessor.__new__(multi_wcs.MultiWcsProcessor)
            proc._collection = coll
            proc._descs = [c03.StubDesc() for _ in imgs]
            proc._combined_wcs = None
            proc._tiling = c03.StubTiling()
            proc.tile(c03.StubPio(), lambda *a, **k: None, parallel=par, cli_progress=False)
    sim = simmp.simulate(fn, chooser, max_steps=20000, hang_window=300)
    if sim.outcome == "exception":
        return "raised", f"{type(sim.main.exc).__name__}", sim
    if sim.outcome == "ok":
        return "ok", "returned normally", sim
    return "hang", sim.outcome, sim


def _cli_target(cmd, base, par):
    """a `toasty` sub-command over a pyramid with one unreadable tile, as the console script runs it;
    returns ("failed", how) when it exits non-zero / raises, ("ok", "") when it reports success"""
    import toasty.par_util
    toasty.par_util.SHOW_INFORMATIONAL_MESSAGES = False
    from toasty import cli
    sys.stdout = sys.stderr = open(os.devnull, "w")
    args = {"cascade": ["cascade", "--start", "1", "--parallelism", str(par), base],
            "transform": ["transform", "u8-to-rgb", "--start", "1", "--parallelism", str(par), base]}[cmd]
    try:
        cli.entrypoint(args)
    except SystemExit as e:
        return ("ok", "exit status 0") if e.code in (0, None) else ("failed", f"exit status {e.code}")
    except BaseException as e:  # noqa
        return "failed", type(e).__name__
    return "ok", "returned"


def make_broken_pyramid(base, cmd):
    """depth-1 pyramid (RGB png tiles for `cascade`, U8 npy tiles for `transform u8-to-rgb`) whose tile (1,1,0) is not readable"""
    import numpy as np
    from toasty.pyramid import PyramidIO, Pos
    from toasty.image import Image
    fmt = "png" if cmd == "cascade" else "npy"
    pio = PyramidIO(base, default_format=fmt)
    for (x, y) in ((0, 0), (1, 0), (0, 1), (1, 1)):
        arr = np.full((256, 256, 3) if fmt == "png" else (256, 256), 40 + x + 2 * y, dtype=np.uint8)
        pio.write_image(Pos(1, x, y), Image.from_array(arr), format=fmt)
    with open(pio.tile_path(Pos(1, 1, 0), format=fmt, makedirs=False), "wb") as f:
        f.write(b"this is not an image file")


def _real_target(stage, par, fail_at):
    import toasty.par_util
    toasty.par_util.SHOW_INFORMATIONAL_MESSAGES = False
    sys.stderr = open(os.devnull, "w")
    return run_stage(stage, par, fail_at, real=True)[:2]


def real_run(stage, par, fail_at, timeout=40):
    from .common import run_isolated
    st, val = run_isolated(_real_target, (stage, par, fail_at), timeout)
    if st == "ok":
        return val
    if st == "raised":
        return "raised", val
    return st, val


def main():
    h = Harness("C19")
    rng = h.rng
    import toasty.par_util
    toasty.par_util.SHOW_INFORMATIONAL_MESSAGES = False
    h.rule = ("stages walk / visit_leaves / transform / multi_tan / multi_wcs; one item (chosen by index or position: first, last, apex, a middle one) raises; 2-4 workers; "
              "random schedules with varied time-out bias (simulated), real processes under a watchdog, and serial mode; non-trivial = every run; distinct by (stage, workers, item, schedule)")
    stages = ["walk", "visit", "transform", "multi_tan", "multi_wcs"]
    nsched = 40 if h.deep else 12
    saved_err = sys.stderr
    sys.stderr = open(os.devnull, "w")       # the workers print tracebacks by design
    try:
        for stage in stages:
            # single failing items, several failing items (at least as many as there can be workers), and every item failing
            fails = {"walk": [0, 3, (0, 0, 0), (1, 1, 1), "all", frozenset([(1, 0, 0), (1, 0, 1), (1, 1, 0), (1, 1, 1)]), frozenset([0, 1, 2, 3])],
                     "visit": [0, 7, (2, 3, 3), "all", frozenset([0, 1, 2, 3, 4])],
                     "transform": [0, 2, (1, 1, 1), "all", frozenset([0, 1, 2, 3])],
                     "multi_tan": [0, "img3", "all", frozenset(["img0", "img1", "img2", "img3"])],
                     "multi_wcs": [1, "img3", "all", frozenset(["img0", "img1", "img2", "img3"])]}[stage]
            # serial reference (the two multi-image stages have a separate serial implementation that is not a queue stage)
            if stage in ("walk", "visit", "transform"):
                kind, detail = run_stage(stage, 1, fails[0], real=True)
                h.case(("serial", stage))
                if kind != "raised":
                    h.violation(f"serial:{stage}", f"{stage} in serial mode with a failing item: {kind} ({detail})", input=[stage, 1, fails[0]])
            for si in range(nsched):
                par = rng.choice([2, 2, 3, 4])
                fa = rng.choice(fails)
                tw = rng.choice([0.02, 0.2, 1.0])
                _EXC["cls"] = EXC_CLASSES[si % len(EXC_CLASSES)]
                chooser = simmp.RandomChooser(rng.randrange(2 ** 31), timeout_weight=tw)
                if si % 4 == 3:
                    chooser = simmp.PCTChooser(rng.randrange(2 ** 31), depth=rng.choice([1, 2, 3, 4]), timeout_prob=rng.choice([0.3, 0.7]))
                kind, detail, sim = run_stage(stage, par, fa, chooser=chooser)
                h.case((stage, par, str(fa), tuple(sim.choices)))
                h.count("stage", stage)
                h.count("outcome", kind)
                if kind != "raised":
                    h.violation(f"{stage}:{'hang' if kind == 'hang' else 'swallowed'}",
                                f"{stage} with {par} workers, item {fa} raising {_EXC['cls'].__name__}, under a random schedule: {'did not terminate (' + detail + ')' if kind == 'hang' else 'returned normally although an item failed'}",
                                input={"stage": stage, "workers": par, "fail_at": str(fa), "exception": _EXC["cls"].__name__, "choices": sim.choices[:400], "trace": sim.trace[:100]})
                elif sim.alive_at_return:
                    h.violation(f"{stage}:leak", f"{stage}: raised while workers {sim.alive_at_return} were still running", input={"stage": stage})
                if si == 0:
                    h.sample({"stage": stage, "workers": par, "fail_at": str(fa), "outcome": f"{kind}: {detail}"})
            # the last report of a walk is the apex: its failure (or a failure reported just before it) must not slip through a
            # window between "tile reported" and "error recorded" — priority schedules park the worker inside that window
            if stage == "walk":
                for xi in range(24 if h.deep else 10):
                    par = rng.choice([2, 3])
                    fa = [(0, 0, 0), "all", (1, 1, 1)][xi % 3]
                    _EXC["cls"] = EXC_CLASSES[xi % len(EXC_CLASSES)]
                    chooser = (simmp.PCTChooser(rng.randrange(2 ** 31), depth=rng.choice([2, 3, 4, 5]), timeout_prob=rng.choice([0.3, 0.7])) if xi % 2
                               else simmp.DelayAfterChooser(rng.randrange(2 ** 31), kinds=("put",), prob=0.7))
                    kind, detail, sim = run_stage(stage, par, fa, chooser=chooser)
                    h.case((stage, "apex-window", par, str(fa), tuple(sim.choices)))
                    h.count("stage", "walk:late-failure")
                    h.count("outcome", kind)
                    if kind != "raised":
                        h.violation(f"{stage}:{'hang' if kind == 'hang' else 'swallowed'}",
                                    f"walk with {par} workers, item {fa} raising {_EXC['cls'].__name__}, under a priority / delay-after-report schedule: {'did not terminate (' + detail + ')' if kind == 'hang' else 'returned normally although an item failed'}",
                                    input={"stage": stage, "workers": par, "fail_at": str(fa), "exception": _EXC["cls"].__name__, "choices": sim.choices[:400], "trace": sim.trace[:100]})
            # a deeper walk (depth 3: sixteen seed-level tiles, more reports outstanding than the done queue holds) with an EARLY failure:
            # the dispatcher must keep draining the reports — neither swallow the error nor leave the workers blocked
            if stage == "walk":
                _WALK_DEPTH["d"] = 3
                try:
                    for xi in range(8 if h.deep else 3):
                        par = rng.choice([2, 3])
                        fa = [(2, 0, 0), 0, (2, 3, 1)][xi % 3]
                        chooser = simmp.RandomChooser(rng.randrange(2 ** 31), timeout_weight=rng.choice([0.02, 0.2]))
                        kind, detail, sim = run_stage(stage, par, fa, chooser=chooser)
                        h.case((stage, "deep-early", par, str(fa), tuple(sim.choices)))
                        h.count("stage", "walk:depth3-early-failure")
                        h.count("outcome", kind)
                        if kind != "raised":
                            h.violation(f"{stage}:{'hang' if kind == 'hang' else 'swallowed'}",
                                        f"walk of a depth-3 pyramid with {par} workers, item {fa} raising {_EXC['cls'].__name__}: {'did not terminate (' + detail + ')' if kind == 'hang' else 'returned normally although an item failed'}",
                                        input={"stage": stage, "depth": 3, "workers": par, "fail_at": str(fa), "choices": sim.choices[:400], "trace": sim.trace[:100]})
                finally:
                    _WALK_DEPTH["d"] = 2
            # an input image that cannot be LOADED (the error is raised in the parent, by the collection's generator)
            if stage in ("multi_tan", "multi_wcs"):
                for li in range(12 if h.deep else 5):
                    par = rng.choice([2, 3])
                    nimg = rng.choice([2, 3, 4])
                    fk = rng.choice([0, nimg - 1, rng.randrange(nimg)])
                    exc = [OSError, FileNotFoundError, ValueError, RuntimeError, KeyError][li % 5]
                    kind, detail, sim = run_load_failure(stage, par, nimg, fk, exc, chooser=simmp.RandomChooser(rng.randrange(2 ** 31), timeout_weight=rng.choice([0.02, 0.3])))
                    h.case((stage, "load", par, nimg, fk, exc.__name__, tuple(sim.choices)))
                    h.count("stage", stage + ":load-failure")
                    h.count("outcome", kind)
                    if kind != "raised":
                        h.violation(f"{stage}:load:{'hang' if kind == 'hang' else 'swallowed'}",
                                    f"{stage} with {par} workers, {nimg} inputs, loading input #{fk} raising {exc.__name__}: {'did not terminate (' + detail + ')' if kind == 'hang' else 'returned normally although an input could not be loaded'}",
                                    input={"stage": stage, "workers": par, "inputs": nimg, "fail_load": fk, "exception": exc.__name__, "choices": sim.choices[:400], "trace": sim.trace[:100]})
            # real processes
            for par in ((2, 4) if h.deep else (3,)):
                # with real processes the arrival counter is per worker process, so an item chosen by arrival index may
                # never fail; choose the failing item by its label (position / image name), which every process agrees on
                real_fail = fails[3] if stage == "walk" else next(f for f in fails if isinstance(f, (tuple, str)) and f != "all")
                kind, detail = real_run(stage, par, real_fail)
                h.case(("real", stage, par))
                h.count("real", f"{stage}:{kind}")
                if kind != "raised":
                    h.violation(f"real:{stage}:{'hang' if kind == 'hang' else 'swallowed'}", f"{stage} with {par} real worker processes and a failing item: {kind} ({detail})", input=[stage, par])
                if stage == "walk":
                    kind, detail = real_run(stage, par, "all")
                    h.case(("real-all", stage, par))
                    h.count("real", f"{stage}-all:{kind}")
                    if kind != "raised":
                        h.violation(f"real:{stage}:{'hang' if kind == 'hang' else 'swallowed'}", f"{stage} with {par} real worker processes and every callback failing: {kind} ({detail})", input=[stage, par, "all"])
        # the command line: a sub-command that runs a parallel stage over a pyramid with an unreadable tile must not report success
        import tempfile
        import shutil
        from .common import run_isolated
        croot = tempfile.mkdtemp(prefix="vfc19_")
        try:
            for cmd in ("cascade", "transform"):
                for par in ((1, 2, 3) if h.deep else (1, 2)):
                    base = os.path.join(croot, f"{cmd}{par}")
                    make_broken_pyramid(base, cmd)
                    st, val = run_isolated(_cli_target, (cmd, base, par), 60)
                    h.case(("cli", cmd, par))
                    h.count("cli", f"{cmd}:j{par}")
                    if st == "hang":
                        h.violation(f"cli:{cmd}:hang", f"`toasty {cmd} --parallelism {par}` over a pyramid with an unreadable tile did not terminate", input=[cmd, par])
                    elif st == "ok" and isinstance(val, tuple) and val[0] == "ok":
                        h.violation(f"cli:{cmd}:swallowed", f"`toasty {cmd} --parallelism {par}` over a pyramid with an unreadable tile reported success ({val[1]})", input={"command": cmd, "parallelism": par, "unreadable_tile": [1, 1, 0]})
        finally:
            shutil.rmtree(croot, ignore_errors=True)
    finally:
        sys.stderr = saved_err
    return h.finish()


if __name__ == "__main__":
    sys.exit(main())
