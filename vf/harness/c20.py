"""C20 harness: HDU / WCS-key selection through collection.load, CollectionLoader.create_from_args and tile_fits."""
import argparse
import os
import shutil
import sys
import tempfile
import warnings

import numpy as np

from .common import Harness, lean_driver, diff_streams

KEYS = [" ", "A", "B", "C"]


def make_file(path, rng, layout, uid):
    """layout: string of I (2-D image), Z (tile-compressed 2-D image, a CompImageHDU), C (3-D cube, celestial last two), V (1-D), T (bin table), E (empty image).
    Returns per-HDU descriptors: kind, shape, value tag, {key: crval1}."""
    from astropy.io import fits
    hdus, desc = [], []
    for j, kind in enumerate(layout):
        tag = float(uid * 100 + j)
        keys = {}
        if kind in "ICDFZ":
            h, w = rng.randint(3, 9), rng.randint(3, 9)
            if kind in "IZ":
                data = np.full((h, w), tag, dtype=np.float32)
            elif kind == "C":      # FITS axes RA, DEC, FREQ  (numpy: freq, dec, ra)
                data = np.full((2, h, w), tag, dtype=np.float32)
                data[1] = -1
            elif kind == "D":      # FITS axes FREQ, RA, DEC  (numpy: dec, ra, freq)
                data = np.full((h, w, 2), tag, dtype=np.float32)
                data[:, :, 1] = -1
            else:                  # FITS axes RA, FREQ, DEC  (numpy: dec, freq, ra)
                data = np.full((h, 2, w), tag, dtype=np.float32)
                data[:, 1, :] = -1
            ax = {"I": (1, 2, None), "Z": (1, 2, None), "C": (1, 2, 3), "D": (2, 3, 1), "F": (1, 3, 2)}[kind]
            hdr = fits.Header()
            nk = rng.randint(1, 3)
            for ki, key in enumerate(KEYS[:nk]):
                k = key.strip()
                crval = round(10 + uid + j * 0.5 + ki * 0.125, 4)
                a1, a2, a3 = ax
                hdr[f"CTYPE{a1}" + k] = "RA---TAN"
                hdr[f"CTYPE{a2}" + k] = "DEC--TAN"
                hdr[f"CRVAL{a1}" + k] = crval
                hdr[f"CRVAL{a2}" + k] = 20.0
                hdr[f"CRPIX{a1}" + k] = 1.0
                hdr[f"CRPIX{a2}" + k] = 1.0
                hdr[f"CDELT{a1}" + k] = -0.01
                hdr[f"CDELT{a2}" + k] = 0.01
                if a3 is not None:
                    hdr[f"CTYPE{a3}" + k] = "FREQ"
                    hdr[f"CRVAL{a3}" + k] = 1.0e9
                    hdr[f"CRPIX{a3}" + k] = 1.0
                    hdr[f"CDELT{a3}" + k] = 1.0e6
                keys[key] = crval
            if kind == "Z":
                if j == 0:
                    hdus.append(fits.PrimaryHDU())
                    desc.append({"kind": "E"})
                hdu = fits.CompImageHDU(data, header=hdr, compression_type="GZIP_1")
            else:
                hdu = fits.PrimaryHDU(data, header=hdr) if j == 0 else fits.ImageHDU(data, header=hdr)
            desc.append({"kind": kind, "shape": (h, w), "tag": tag, "keys": keys})
        elif kind == "V":
            data = np.arange(5, dtype=np.float32)
            hdu = fits.PrimaryHDU(data) if j == 0 else fits.ImageHDU(data)
            desc.append({"kind": kind})
        elif kind == "E":
            hdu = fits.PrimaryHDU() if j == 0 else fits.ImageHDU()
            desc.append({"kind": kind})
        else:  # T
            col = fits.Column(name="a", format="E", array=np.arange(3, dtype=np.float32))
            if j == 0:
                hdus.append(fits.PrimaryHDU())
                desc.append({"kind": "E"})
            hdu = fits.BinTableHDU.from_columns([col])
            desc.append({"kind": "T"})
        hdus.append(hdu)
    fits.HDUList(hdus).writeto(path, overwrite=True)
    return desc


def kinds_line(path):
    """what the guess loop observes on the real astropy objects"""
    from astropy.io import fits
    out = []
    with fits.open(path) as hdul:
        for hdu in hdul:
            has = hasattr(hdu, "shape")
            nd = len(hdu.shape) if has else 0
            out.append("%d:%d:%d" % (1 if has else 0, nd, 1 if type(hdu) is fits.hdu.table.BinTableHDU else 0))
    return ",".join(out) if out else "-"


def spec_str(hs):
    if hs is None:
        return "g"
    if isinstance(hs, int):
        return f"s:{hs}"
    return "l:" + ",".join(str(k) for k in hs)


def key_str(ks):
    rb = lambda k: "_" if k == " " else k
    if ks is None:
        return "d"
    if isinstance(ks, str):
        return "s:" + rb(ks)
    return "l:" + ",".join(rb(k) for k in ks)


def expected_choice(desc, hs, i):
    """the specification, directly: which HDU number file i must contribute (or None = error expected / unspecified)"""
    n = len(desc)
    if hs is None:
        for j, d in enumerate(desc):
            if d["kind"] in "ICDFZ":
                return j
        return None
    k = hs if isinstance(hs, int) else (hs[i] if i < len(hs) else None)
    if k is None:
        return None
    if k < 0:
        k += n
    if not (0 <= k < n) or desc[k]["kind"] not in "ICDFZ":
        return None
    return k


def observe(coll, paths):
    """(per file) for descriptions and images: shape, crval1, data tag"""
    res = {"desc": [], "img": [], "export": None, "error": None}
    try:
        with warnings.catch_warnings():
            warnings.simplefilter("ignore")
            res["export"] = [(p, int(i)) for p, i in coll.export_simple()]
            for d in coll.descriptions():
                res["desc"].append({"id": d.collection_id, "shape": tuple(int(v) for v in d.shape), "crval1": round(float(d.wcs.wcs.crval[0]), 4)})
            for im in coll.images():
                a = im.asarray()
                res["img"].append({"id": im.collection_id, "shape": tuple(int(v) for v in a.shape), "crval1": round(float(im.wcs.wcs.crval[0]), 4),
                                   "tag": float(a.flat[0]), "uniform": bool(np.all(a == a.flat[0]))})
    except Exception as e:
        res["error"] = f"{type(e).__name__}: {e}"
    return res


def main():
    h = Harness("C20")
    from toasty import collection
    rng = h.rng
    h.rule = ("collections of 1-4 generated multi-extension FITS files (layouts over image/cube/1-D/empty/table HDUs, 1-3 alternate WCS keys with distinct CRVAL1, "
              "distinct shapes and pixel tags), selections: guess / scalar / per-file list (incl. negative, short lists, indices naming tables) x key default/scalar/list, "
              "through collection.load, CollectionLoader.create_from_args and tile_fits; non-trivial = list selection over >=2 files with differing entries")
    d = tempfile.mkdtemp(prefix="vfc20_")
    lines, py = [], []
    groups = []
    try:
        layouts = ["I", "EI", "ETI", "EII", "TII", "EVI", "EITI", "EIC", "ECI", "EIII", "IT", "ET", "E", "EV", "ETIC", "EDI", "EFD", "D", "EIF", "EZI", "ETZI", "EZ", "ZI", "EZT"]
        n_coll = 400 if h.deep else 110
        uid = 0
        for ci in range(n_coll):
            nf = rng.choice([1, 2, 2, 3, 3, 4])
            paths, descs = [], []
            for f in range(nf):
                uid += 1
                p = os.path.join(d, f"c{ci}_f{f}.fits")
                lay = rng.choice(layouts if rng.random() < 0.8 else ["EII", "EIII", "EIC"])
                descs.append(make_file(p, rng, lay, uid))
                paths.append(p)
            if rng.random() < 0.15 and nf >= 2:
                paths[-1] = paths[0]
                descs[-1] = descs[0]
            # choose selection
            r = rng.random()
            if r < 0.2:
                hs = None
            elif r < 0.4:
                hs = rng.choice([0, 1, 1, 2, -1])
            else:
                hs = []
                for dsc in descs:
                    good = [j for j, x in enumerate(dsc) if x["kind"] in "ICDFZ"]
                    if good and rng.random() < 0.93:
                        hs.append(rng.choice(good))
                    else:
                        hs.append(rng.randint(-1, len(dsc)))
                if rng.random() < 0.08:
                    hs = hs[:-1]
            # keys: mostly ones that exist in the selected HDUs (valid selections), sometimes arbitrary
            def avail(i):
                c = expected_choice(descs[i], hs, i)
                return sorted(descs[i][c]["keys"]) if c is not None else [" "]
            r = rng.random()
            if r < 0.3:
                ks = " " if rng.random() < 0.5 else None
            elif r < 0.5:
                common = set(KEYS)
                for i in range(len(paths)):
                    common &= set(avail(i))
                ks = rng.choice(sorted(common)) if common else " "
            elif r < 0.92:
                ks = [rng.choice(avail(i)) for i in range(len(paths))]
            else:
                ks = [rng.choice(KEYS[:3]) for _ in paths]
            kw = {}
            if ks is not None:
                kw["wcs_key"] = ks
            coll = collection.load(list(paths), hdu_index=hs, **kw)
            obs = observe(coll, paths)
            nontriv = isinstance(hs, list) and len(set(hs)) > 1 and len(paths) >= 2
            h.case((spec_str(hs), key_str(ks), tuple(len(x) for x in descs), ci) if nontriv else None)
            h.count("hdu_spec", "guess" if hs is None else ("scalar" if isinstance(hs, int) else "list"))
            h.count("key_spec", "default" if ks is None else ("scalar" if isinstance(ks, str) else "list"))
            # ---- model correspondence (per file)
            groups.append((len(lines), len(paths), obs["error"], tagc0 if False else None))
            for i, p in enumerate(paths):
                lines.append(f"scan select {spec_str(hs)} {i} {kinds_line(p)}")
                exp = obs["export"]
                if obs["error"] is None:
                    py.append(f"ok {exp[i][1]} {exp[i][1]}")
                else:
                    py.append(None)  # compared specially below
                kl = f"scan key {key_str(ks if ks is not None else ' ')} {i}" if ks is not None else f"scan key d {i}"
                lines.append(kl)
                py.append(None)
            # ---- the property itself
            exp_choice = [expected_choice(dsc, hs, i) for i, dsc in enumerate(descs)]
            keyf = lambda i: (" " if ks is None else (ks if isinstance(ks, str) else ks[i]))
            valid = all(c is not None for c in exp_choice) and all(keyf(i) in descs[i][exp_choice[i]]["keys"] for i in range(len(paths)) if exp_choice[i] is not None)
            h.count("valid_selection", valid)
            tagc = f"c{ci}:{spec_str(hs)}:{key_str(ks)}"
            if valid:
                if obs["error"]:
                    h.violation(f"select:{spec_str(hs)[0]}:{key_str(ks)[0]}:error", f"load({[os.path.basename(p) for p in paths]}, hdu_index={hs}, wcs_key={ks!r}) raised {obs['error']}",
                                input={"layouts": [[x['kind'] for x in dsc] for dsc in descs], "hdu_index": hs, "wcs_key": ks}, observed=obs["error"])
                else:
                    for i, p in enumerate(paths):
                        dsc = descs[i][exp_choice[i]]
                        want = {"id": p, "shape": dsc["shape"], "crval1": dsc["keys"][keyf(i)]}
                        got_d, got_i = obs["desc"][i], obs["img"][i]
                        bad = None
                        if obs["export"][i] != (p, exp_choice[i] if (hs is None or (hs if isinstance(hs, int) else hs[i]) >= 0) else (hs if isinstance(hs, int) else hs[i])):
                            bad = f"export_simple reports {obs['export'][i]} for file #{i}, selected HDU is {exp_choice[i]}"
                        elif got_d != want:
                            bad = f"description #{i} is {got_d}, the selected HDU/key has {want}"
                        elif {k: got_i[k] for k in want} != want or got_i["tag"] != dsc["tag"]:
                            bad = f"image #{i} is {got_i}, the selected HDU/key has {want} with pixel tag {dsc['tag']}"
                        if bad:
                            h.violation(f"select:{spec_str(hs)[0]}:{key_str(ks)[0]}", f"{tagc}: {bad}",
                                        input={"layouts": [[x['kind'] for x in dsc2] for dsc2 in descs], "hdu_index": hs, "wcs_key": ks, "same_path_twice": len(set(paths)) < len(paths)},
                                        observed=bad)
                            break
            if len(h.samples) < 4:
                h.sample({"layouts": ["".join(x["kind"] for x in dsc) for dsc in descs], "hdu_index": hs, "wcs_key": ks, "error": obs["error"]})
        # ---- CLI parsing
        cli_cases = ["0", "2", "-1", "1,2", "0,0,3", "2,1", "7", "1,-1"]
        for s in cli_cases:
            ns = argparse.Namespace(hdu_index=s, wcs_key=None, blankval=None)
            try:
                ld = collection.CollectionLoader.create_from_args(ns)
                v = ld.hdu_index
                r = spec_str(v)
            except Exception:
                r = "error"
            lines.append(f"scan cli_hdu {s}")
            py.append(r)
            exp = ("s:" + s) if "," not in s else ("l:" + s)
            if r != exp:
                h.violation(f"cli:hdu:{s}", f"--hdu-index {s!r} parsed as {r}, expected {exp}", input=s)
            h.case()
        for s in ["A", "_", "A,B", "_,A,Z", "a", "AB", "A,,B"]:
            ns = argparse.Namespace(hdu_index=None, wcs_key=s.replace("_", " "), blankval=None)
            try:
                ld = collection.CollectionLoader.create_from_args(ns)
                r = key_str(ld.wcs_key)
            except Exception:
                r = "error"
            lines.append(f"scan cli_key {s}")
            py.append(r)
            h.case()
            if s in ("A,B", "_,A,Z") and r != "error":
                want_keys = s.replace("_", " ").split(",")
                if list(ld.wcs_key or []) != want_keys if not isinstance(ld.wcs_key, str) else True:
                    h.violation("cli:key", f"--wcs-key {s!r} gives the loader wcs_key = {ld.wcs_key!r}, the user listed {want_keys}", input=s)
        # end-to-end through CLI-style loader and tile_fits for one list selection
        uid += 1
        pa, pb = os.path.join(d, "ta.fits"), os.path.join(d, "tb.fits")
        da, db = make_file(pa, rng, "EII", uid), make_file(pb, rng, "EII", uid + 1)
        ns = argparse.Namespace(hdu_index="2,1", wcs_key=None, blankval=None)
        coll = collection.CollectionLoader.create_from_args(ns).load_paths([pa, pb])
        obs = observe(coll, [pa, pb])
        if obs["error"] or [x["tag"] for x in obs["img"]] != [da[2]["tag"], db[1]["tag"]]:
            h.violation("cli:e2e", f"--hdu-index 2,1 over two files loaded {obs['error'] or [x['tag'] for x in obs['img']]}, expected tags {[da[2]['tag'], db[1]['tag']]}", input="2,1")
        h.case(("cli-e2e",))
        # histories in one process: no selection, then an explicit selection, then no selection again — on the same files
        try:
            o1 = observe(collection.load([pa, pb]), [pa, pb])
            o2 = observe(collection.load([pa, pb], hdu_index=[2, 1]), [pa, pb])
            o3 = observe(collection.load([pa, pb]), [pa, pb])
            h.case(("history", "default-explicit-default"))
            h.count("history", "default-explicit-default")
            t1, t2, t3 = ([x["tag"] for x in o["img"]] if not o["error"] else o["error"] for o in (o1, o2, o3))
            if t2 != [da[2]["tag"], db[1]["tag"]]:
                h.violation("history:explicit", f"load(hdu_index=[2, 1]) after a load without selection read {t2}, expected {[da[2]['tag'], db[1]['tag']]}", input="default, [2,1]")
            if t3 != t1 or t1 != [da[1]["tag"], db[1]["tag"]]:
                h.violation("history:default", f"load without a selection read {t1}; after an intervening load(hdu_index=[2, 1]) of the same files it reads {t3} (the first image HDUs are {[da[1]['tag'], db[1]['tag']]})",
                            input={"history": ["load([a,b])", "load([a,b], hdu_index=[2,1])", "load([a,b])"]})
        except Exception as e:
            h.violation("history:crash", f"repeated loads of the same files raised {type(e).__name__}: {e}", input="history")
        # an abandoned pass over a collection (the caller breaks out of `images()` / `descriptions()` early, as the common-grid test
        # of the tiler does) leaves the collection as it was: a later full pass still pairs file i with list entry i
        try:
            pc = os.path.join(d, "tc.fits")
            uid += 1
            dc = make_file(pc, rng, "EII", uid + 2)
            ref = observe(collection.load([pa, pb, pc], hdu_index=[1, 2, 1]), [pa, pb, pc])
            for nbreak in (1, 2):
                coll3 = collection.load([pa, pb, pc], hdu_index=[1, 2, 1])
                for which in ("images", "descriptions"):
                    with warnings.catch_warnings():
                        warnings.simplefilter("ignore")
                        for kk, _item in enumerate(getattr(coll3, which)()):
                            if kk + 1 >= nbreak:
                                break
                    o4 = observe(coll3, [pa, pb, pc])
                    h.case(("history", "abandoned-pass", which, nbreak))
                    h.count("history", "abandoned-pass")
                    t_ref = [x["tag"] for x in ref["img"]] if not ref["error"] else ref["error"]
                    t_got = [x["tag"] for x in o4["img"]] if not o4["error"] else o4["error"]
                    if t_got != t_ref or o4["export"] != ref["export"] or [x["shape"] for x in o4["desc"]] != [x["shape"] for x in ref["desc"]]:
                        h.violation("history:abandoned", f"load([a, b, c], hdu_index=[1, 2, 1]): after a pass over {which}() abandoned at input #{nbreak} the same collection reads {t_got} / exports {o4['export'] and [i for _p, i in o4['export']]}, "
                                    f"a fresh one reads {t_ref} / exports {[i for _p, i in ref['export']]}", input={"history": [f"{which}() abandoned after {nbreak}", "full pass"], "hdu_index": [1, 2, 1]})
        except Exception as e:
            h.violation("history:crash", f"abandoned pass over a collection raised {type(e).__name__}: {e}", input="abandoned-pass")
        # a consumer that normalises the parity of the descriptions it is handed (as the library's own common-grid test and multi-TAN
        # pixelisation do): descriptions and images of the same collection still agree afterwards — same HDU, same shape, same WCS
        try:
            coll5 = collection.load([pa, pb, pc], hdu_index=[1, 2, 1])
            with warnings.catch_warnings():
                warnings.simplefilter("ignore")
                flipped = 0
                for dsc in coll5.descriptions():
                    before = dsc.get_parity_sign()
                    dsc.ensure_negative_parity()
                    flipped += int(before != dsc.get_parity_sign())
                dd = list(coll5.descriptions())
                ii = list(coll5.images())
            h.case(("history", "parity-normalising-consumer"))
            h.count("history", "parity-normalising-consumer" + ("" if flipped else " (nothing to flip)"))
            for k5, (dsc, img) in enumerate(zip(dd, ii)):
                wd = np.asarray(dsc.wcs.wcs_pix2world([[0.0, 0.0], [3.0, 2.0]], 0))
                wi = np.asarray(img.wcs.wcs_pix2world([[0.0, 0.0], [3.0, 2.0]], 0))
                if tuple(dsc.shape) != tuple(img.shape) or dsc.get_parity_sign() != img.get_parity_sign() or not np.allclose(wd, wi, atol=1e-9):
                    h.violation("history:consumer", f"load([a, b, c], hdu_index=[1, 2, 1]): after a pass that called ensure_negative_parity() on the descriptions it was handed, "
                                f"description #{k5} has parity {dsc.get_parity_sign()} and puts pixel (0,0) at {wd[0].round(6).tolist()}, image #{k5} has parity {img.get_parity_sign()} and puts it at {wi[0].round(6).tolist()}",
                                input={"history": ["descriptions() + ensure_negative_parity on each", "descriptions()", "images()"]})
                    break
        except Exception as e:
            h.violation("history:crash", f"parity-normalising pass over a collection raised {type(e).__name__}: {e}", input="consumer-pass")
        # the `toasty view` command line: what reaches the tiler is the user's list of files, positionally, with the per-file
        # selections — including the same file named twice to pick two of its HDUs (the tiler itself is replaced by a recorder)
        try:
            from toasty import cli
            import toasty.fits_tiler as FT
            import contextlib
            import io
            captured = {}

            class RecordingTiler:
                def __init__(self, coll, **kw):
                    captured["coll"] = coll
                    self.out_dir = d

                def tile(self, **kw):
                    pass
            for argv_sel, paths, want_sel in ((["--hdu-index", "1,2"], [pa, pa], [(pa, 1), (pa, 2)]),
                                              (["--hdu-index", "2,1,2"], [pa, pb, pa], [(pa, 2), (pb, 1), (pa, 2)]),
                                              (["--hdu-index", "1"], [pb, pa], [(pb, 1), (pa, 1)])):
                captured.clear()
                real = FT.FitsTiler
                FT.FitsTiler = RecordingTiler
                try:
                    with contextlib.redirect_stdout(io.StringIO()), contextlib.redirect_stderr(io.StringIO()):
                        cli.entrypoint(["view", "--tile-only", "--tiling-method", "tan"] + argv_sel + paths)
                finally:
                    FT.FitsTiler = real
                coll2 = captured.get("coll")
                got_sel = [(p_, int(i_)) for (p_, i_) in coll2.export_simple()] if coll2 is not None else None
                h.case(("cli-view", tuple(argv_sel), len(paths)))
                h.count("cli", "view")
                if got_sel != want_sel:
                    h.violation("cli:view", f"`toasty view {' '.join(argv_sel)}` over {[os.path.basename(p_) for p_ in paths]} hands the tiler {None if got_sel is None else [(os.path.basename(p_), i_) for p_, i_ in got_sel]}, "
                                f"the user selected {[(os.path.basename(p_), i_) for p_, i_ in want_sel]}", input={"argv": argv_sel, "files": [os.path.basename(p_) for p_ in paths]})
        except BaseException as e:  # noqa
            h.violation("cli:view:crash", f"`toasty view --tile-only` raised {type(e).__name__}: {e}", input="view")
        try:
            import toasty
            import toasty.par_util
            from toasty.pyramid import PyramidIO, Pos
            out = os.path.join(d, "tiled")
            toasty.par_util.SHOW_INFORMATIONAL_MESSAGES = False
            odir, bld = toasty.tile_fits([pa, pb], out_dir=out, hdu_index=[2, 1], parallel=1)
            lv = bld.imgset.tile_levels
            pio = PyramidIO(odir, default_format="fits")
            vals = set()
            for x in range(2 ** lv):
                for y in range(2 ** lv):
                    im = pio.read_image(Pos(lv, x, y))
                    if im is not None:
                        a = im.asarray()
                        vals |= set(np.unique(a[np.isfinite(a)]).tolist())
            want = {da[2]["tag"], db[1]["tag"]}
            if not (vals and vals <= want and (len(vals) >= 1)):
                h.violation("tile_fits:list", f"tile_fits(hdu_index=[2,1]) produced pixel values {sorted(vals)[:6]}, the selected HDUs hold {sorted(want)}", input=[2, 1])
        except Exception as e:
            h.violation("tile_fits:list:error", f"tile_fits([a,b], hdu_index=[2,1]) raised {type(e).__name__}: {e}", input=[2, 1])
        h.case(("tile_fits",))
        # ---- compare with the model
        try:
            out = lean_driver(lines)
            sel_lines, sel_py, sel_out = [], [], []
            for l, a, b in zip(lines, py, out):
                if a is None:
                    continue
                sel_lines.append(l); sel_py.append(a); sel_out.append(b)
            diff_streams(h, "select-vs-model", sel_lines, sel_py, sel_out)
            # error correspondence: the real load failed in the HDU selection  <=>  the model reports a non-ok outcome for some file
            for (start, nfiles, err, _t) in groups:
                sel = [out[start + 2 * i] for i in range(nfiles)]
                keys_ok = all(out[start + 2 * i + 1] != "index-error" for i in range(nfiles))
                model_ok = all(x.startswith("ok") for x in sel)
                if err is None and not model_ok:
                    h.corr_fail("select-vs-model", {"input": lines[start], "impl": "loaded without error", "model": sel})
                else:
                    h.corr_ok("select-errors")
        except Exception as e:
            h.corr_fail("select-vs-model", {"error": str(e)[-800:]})
    finally:
        shutil.rmtree(d, ignore_errors=True)
    return h.finish()


if __name__ == "__main__":
    sys.exit(main())
