"""C08 harness: study tiling.

Streams
  gen-diff   : every definition of Gen/Study.lean + next_highest_power_of_2 executed in Lean
               (driver) and in Python (the real functions) on the same inputs;
  oracle     : the partition property evaluated on the real StudyTiling (this is the
               failing-input search when a theorem no longer checks);
  readback   : real tile_study_image / sub-image tile_image, tiles read back through the
               URL template and reassembled in display orientation.
"""
import os
import shutil
import sys
import tempfile

import numpy as np

from .common import Harness, lean_driver, diff_streams


def size_classes(rng, n_random, hi=5000):
    base = [1, 2, 3, 127, 128, 129, 254, 255, 256, 257, 258, 383, 384, 385, 511, 512, 513, 767, 768, 769,
            1023, 1024, 1025, 1279, 2047, 2048, 2049]
    out = list(base)
    for _ in range(n_random):
        out.append(rng.randint(1, hi))
    return out


def fmt_entry(e):
    pos = e[0]
    return f"({pos.n},{pos.x},{pos.y}):" + ",".join(str(int(v)) for v in e[1:])


def fmt_study(t):
    return (f"w={t._width} h={t._height} p2n={t._p2n} ts={t._tile_size} lv={t._tile_levels} "
            f"gx0={t._img_gx0} gy0={t._img_gy0}")


def check_partition(h, t, tag):
    """The property itself, on the real object.  1-D decomposition (rectangles are products)."""
    ents = list(t.generate_populated_positions())
    W, H, gx0, gy0 = t._width, t._height, t._img_gx0, t._img_gy0
    bad = None
    if len(ents) != t.count_populated_positions():
        bad = f"count_populated_positions={t.count_populated_positions()} but {len(ents)} rectangles"
    cols = sorted({(e[3], e[1], e[5], e[0].x) for e in ents})
    rows = sorted({(e[4], e[2], e[6], e[0].y) for e in ents})
    if not bad and len(cols) * len(rows) != len(ents) or len({e[0] for e in ents}) != len(ents):
        bad = bad or "rectangles are not a duplicate-free product of column and row intervals"
    for axis, segs, size, g0 in (("x", cols, W, gx0), ("y", rows, H, gy0)):
        cur = 0
        for (i0, ln, b0, tt) in segs:
            if bad:
                break
            if i0 != cur:
                bad = f"{axis}: gap/overlap at image coordinate {cur} (next rectangle starts at {i0})"
            elif ln < 1 or b0 < 0 or b0 + ln > 256:
                bad = f"{axis}: rectangle start {i0} len {ln} at in-tile offset {b0} leaves its tile"
            elif i0 + g0 != 256 * tt + b0:
                bad = f"{axis}: rectangle at image {i0} is placed at tile {tt} offset {b0}, global offset {g0}"
            cur = i0 + ln
        if not bad and cur != size:
            bad = f"{axis}: rectangles cover [0,{cur}) but the image has {size}"
    lv = t._tile_levels
    if not bad and any(e[0].n != lv or not (0 <= e[0].x < 2 ** lv and 0 <= e[0].y < 2 ** lv) for e in ents):
        bad = "rectangle for a tile outside the deepest layer"
    if not bad:
        # image_to_tile agrees on a few pixels
        for (u, v) in ((0, 0), (W - 1, H - 1), (W // 2, H // 3), (min(W - 1, 255 - gx0 % 256), 0)):
            tx, ty, sx, sy = t.image_to_tile(u, v)
            hit = [e for e in ents if e[3] <= u < e[3] + e[1] and e[4] <= v < e[4] + e[2]]
            if len(hit) != 1:
                bad = f"pixel ({u},{v}) lies in {len(hit)} rectangles"
                break
            e = hit[0]
            if (int(tx), int(ty), int(sx), int(sy)) != (e[0].x, e[0].y, e[5] + u - e[3], e[6] + v - e[4]):
                bad = f"image_to_tile({u},{v})={(int(tx), int(ty), int(sx), int(sy))} but the rectangle says tile ({e[0].x},{e[0].y}) at ({e[5] + u - e[3]},{e[6] + v - e[4]})"
                break
    if bad:
        h.violation(f"partition:{tag}", f"study tiling {tag}: {bad}", input=tag, observed=bad)
    return bad is None


def check_init(h, w, hgt, t):
    p2n = t._p2n
    bad = None
    if p2n < 256 or p2n & (p2n - 1):
        bad = f"p2n={p2n} is not a power of two >= 256"
    elif p2n < max(w, hgt):
        bad = f"p2n={p2n} does not contain the image"
    elif p2n > 256 and p2n // 2 >= max(w, hgt):
        bad = f"p2n={p2n} is not the smallest power of two containing the image"
    elif 256 * 2 ** t._tile_levels != p2n or t._tile_size * 256 != p2n:
        bad = f"tile_levels={t._tile_levels} / tile_size={t._tile_size} inconsistent with p2n={p2n}"
    elif t._img_gx0 != (p2n - w) // 2 or t._img_gy0 != (p2n - hgt) // 2:
        bad = f"image not centred: offsets ({t._img_gx0},{t._img_gy0}) for {w}x{hgt} in {p2n}"
    if bad:
        h.violation(f"init:{w}x{hgt}", f"StudyTiling({w},{hgt}): {bad}", input=[w, hgt], observed=bad)


MODES = {
    # name: (dtype, channels, undefined-test on buffer array -> bool mask of undefined pixels)
    "F32": (np.float32, 0), "F64": (np.float64, 0), "U8": (np.uint8, 0), "I16": (np.int16, 0), "I32": (np.int32, 0),
    "RGB": (np.uint8, 3), "RGBA": (np.uint8, 4), "F16x3": (np.float16, 3),
}
FORMAT_MODES = {"npy": ["F32", "F64", "U8", "I16", "I32", "RGB", "RGBA", "F16x3"], "fits": ["F32", "F64", "I16", "I32", "U8"], "png": ["RGB", "RGBA"]}


def make_data(rng, mode, hgt, w):
    dt, ch = MODES[mode]
    r = np.random.RandomState(rng.randint(0, 2 ** 31 - 1))
    shape = (hgt, w) if ch == 0 else (hgt, w, ch)
    if dt in (np.float32, np.float64, np.float16):
        a = (r.randint(1, 2000, size=shape) / 8.0).astype(dt)
    elif dt == np.uint8:
        a = r.randint(1, 255, size=shape).astype(dt)
    else:
        a = r.randint(1, 30000, size=shape).astype(dt)
    if mode == "RGBA":
        a[..., 3] = r.randint(1, 255, size=(hgt, w))
    return a


def expected_canvas(mode, data, p2n, gx0, gy0):
    """Display-orientation canvas of the tiled image (what WWT shows), as (values, defined-mask)."""
    hgt, w = data.shape[:2]
    if mode == "RGB":
        vals = np.zeros((p2n, p2n, 4), dtype=np.uint8)
        vals[gy0:gy0 + hgt, gx0:gx0 + w, :3] = data
        vals[gy0:gy0 + hgt, gx0:gx0 + w, 3] = 255
    else:
        shape = (p2n, p2n) + data.shape[2:]
        if data.dtype.kind == "f":
            vals = np.full(shape, np.nan, dtype=data.dtype)
        else:
            vals = np.zeros(shape, dtype=data.dtype)
        vals[gy0:gy0 + hgt, gx0:gx0 + w] = data
    return vals


def undefined_tile(mode):
    if mode in ("RGB", "RGBA"):
        return np.zeros((256, 256, 4), dtype=np.uint8)
    dt, ch = MODES[mode]
    shape = (256, 256) if ch == 0 else (256, 256, ch)
    if np.dtype(dt).kind == "f":
        return np.full(shape, np.nan, dtype=dt)
    return np.zeros(shape, dtype=dt)


def same(a, b):
    if a.shape != b.shape:
        return False
    if a.dtype.kind == "f":
        return bool(np.array_equal(a, b, equal_nan=True))
    return bool(np.array_equal(a, b))


def readback_case(h, fmt, mode, w, hgt, sub=None):
    """Tile with the real code, read every deepest-level tile back through the URL template."""
    from toasty.image import Image
    from toasty.pyramid import PyramidIO, Pos
    from toasty.study import StudyTiling
    from toasty.builder import Builder

    tag = f"{fmt}/{mode}/{w}x{hgt}" + (f"/sub{sub}" if sub else "")
    d = tempfile.mkdtemp(prefix="vfc08_")
    try:
        pio = PyramidIO(d, default_format=fmt)
        tiling = StudyTiling(w, hgt)
        if sub:
            ix, iy, sw, sh = sub
            data = make_data(h.rng, mode, sh, sw)
            if (ix + iy) % 2:
                tiling.count_populated_positions()            # a parent that was used before the sub-image is derived
                list(tiling.generate_populated_positions())
            t = tiling.compute_for_subimage(ix, iy, sw, sh)
        else:
            data = make_data(h.rng, mode, hgt, w)
            t = tiling
            ix = iy = 0
        # expectation computed independently of the object under test (the specification)
        spec_p2n = 256
        while spec_p2n < max(w, hgt):
            spec_p2n *= 2
        gx0, gy0 = (spec_p2n - w) // 2 + ix, (spec_p2n - hgt) // 2 + iy
        img = Image.from_array(data.copy())
        bld = Builder(pio)
        if (w + hgt) % 2:
            # through the Builder entry point that takes a prepared tiling (the route `toasty tile-study` uses)
            bld.execute_study_tiling(img, t)
        else:
            t.tile_image(img, pio)
        url = bld.imgset.url
        lv = t._tile_levels
        if tiling._tile_levels != lv or t._p2n != tiling._p2n or t._p2n != spec_p2n or 256 * 2 ** lv != spec_p2n:
            h.violation(f"readback:{tag}", f"{tag}: tiling geometry p2n={t._p2n} levels={lv} differs from the parent's / the specification's {spec_p2n}", input=tag)
            return
        canvas = expected_canvas(mode, data, spec_p2n, gx0, gy0)
        flip = fmt == "fits"
        for Y in range(2 ** lv):
            for X in range(2 ** lv):
                rel = url.replace("{1}", str(lv)).replace("{2}", str(X)).replace("{3}", str(Y))
                p = os.path.join(d, rel)
                exp = canvas[256 * Y:256 * Y + 256, 256 * X:256 * X + 256]
                if os.path.exists(p):
                    arr = pio.read_image(Pos(lv, X, Y)).asarray()
                    if flip:
                        arr = arr[::-1]
                    got = arr
                else:
                    got = undefined_tile(mode)
                if not same(np.asarray(got), exp):
                    diff = "shape/dtype" if np.asarray(got).shape != exp.shape else None
                    if diff is None:
                        g, e = np.asarray(got), exp
                        neq = ~((g == e) | ((g != g) & (e != e))) if g.dtype.kind == "f" else (g != e)
                        idx = np.argwhere(neq)[0]
                        diff = f"first differing pixel (row,col,..)={tuple(int(v) for v in idx)} got {g[tuple(idx)]} expected {e[tuple(idx)]}; file {'present' if os.path.exists(p) else 'absent'}"
                    h.violation(f"readback:{tag}", f"reassembled tile ({lv},{X},{Y}) of {tag} differs from the image: {diff}",
                                input={"format": fmt, "mode": mode, "width": w, "height": hgt, "sub": sub}, observed=diff)
                    return
    finally:
        shutil.rmtree(d, ignore_errors=True)


def main():
    h = Harness("C08")
    from toasty.study import StudyTiling
    from toasty.pyramid import next_highest_power_of_2

    h.rule = ("sizes: classes around 1,128,255..258,384,511..513,768,1023..1025,2047..2049 per axis plus random to 5000; "
              "sub-images: random offsets/sizes inside the parent; readback: format x mode x size; "
              "a case is non-trivial when the image spans more than one tile or is not tile-aligned; distinct = distinct (w,h,sub)")
    n_rand = 400 if h.deep else 40
    sizes = size_classes(h.rng, n_rand)
    pairs = []
    base = sizes[:27]
    for w in base:
        for hh in (1, 255, 256, 257, 513, 1025):
            pairs.append((w, hh))
            pairs.append((hh, w))
    for _ in range(1500 if h.deep else 250):
        pairs.append((h.rng.choice(sizes), h.rng.choice(sizes)))
    pairs = list(dict.fromkeys(pairs))

    lines, py = [], []

    def add(line, val):
        lines.append(line)
        py.append(val)

    for n in list(range(-2, 3)) + sizes + [255, 256, 257, 65536, 65537, 10 ** 6]:
        add(f"gen nhp2 {n}", str(next_highest_power_of_2(n)))
    for (w, hh) in [(0, 5), (5, 0), (-1, 3)]:
        try:
            StudyTiling(w, hh)
            add(f"gen study_init {w} {hh}", "no-error")
        except ValueError:
            add(f"gen study_init {w} {hh}", "value-error")
    for (w, hh) in pairs:
        t = StudyTiling(w, hh)
        h.case(("full", w, hh) if (w > 256 or hh > 256 or w % 256 or hh % 256) else None)
        h.count("levels", t._tile_levels)
        check_init(h, w, hh, t)
        check_partition(h, t, f"{w}x{hh}")
        add(f"gen study_init {w} {hh}", fmt_study(t))
        add(f"study count {w} {hh}", str(t.count_populated_positions()))
        if t._tile_levels <= 3:
            add(f"study rects {w} {hh}", " ".join(fmt_entry(e) for e in t.generate_populated_positions()))
        for (u, v) in ((0, 0), (w - 1, hh - 1), (-3, 700)):
            r = t.image_to_tile(u, v)
            add(f"study i2t {u} {v} {w} {hh}", " ".join(str(int(x)) for x in r))
    # sub-images
    subs = []
    for _ in range(1200 if h.deep else 200):
        w, hh = h.rng.choice(pairs)
        sw, sh = h.rng.randint(1, w), h.rng.randint(1, hh)
        ix, iy = h.rng.randint(0, w - sw), h.rng.randint(0, hh - sh)
        subs.append((w, hh, ix, iy, sw, sh))
    for si_, (w, hh, ix, iy, sw, sh) in enumerate(subs):
        parent_obj = StudyTiling(w, hh)
        if si_ % 2:
            # the parent has been USED before a sub-image is derived from it (tiled / queried): nothing it retains may leak
            parent_obj.count_populated_positions()
            if parent_obj._tile_levels <= 3:
                list(parent_obj.generate_populated_positions())
            h.count("sub-parent", "used-before")
        t = parent_obj.compute_for_subimage(ix, iy, sw, sh)
        h.case(("sub", w, hh, ix, iy, sw, sh, si_ % 2))
        par = StudyTiling(w, hh)
        if (t._img_gx0, t._img_gy0, t._p2n, t._tile_levels, t._width, t._height) != (par._img_gx0 + ix, par._img_gy0 + iy, par._p2n, par._tile_levels, sw, sh):
            h.violation(f"subgeom:{w}x{hh}", f"sub-image ({ix},{iy},{sw},{sh}) of {w}x{hh}: offsets ({t._img_gx0},{t._img_gy0}) size {t._width}x{t._height} p2n {t._p2n}; "
                        f"parent offsets ({par._img_gx0},{par._img_gy0}) p2n {par._p2n}", input=[w, hh, ix, iy, sw, sh])
        check_partition(h, t, f"{w}x{hh}+sub({ix},{iy},{sw},{sh})")
        a = f"{w} {hh} {ix} {iy} {sw} {sh}"
        add(f"gen study_sub {a}", fmt_study(t))
        add(f"study count {a}", str(t.count_populated_positions()))
        if t._tile_levels <= 3:
            add(f"study rects {a}", " ".join(fmt_entry(e) for e in t.generate_populated_positions()))
    for bad in [(10, 10, 5, 5, 6, 2), (10, 10, -1, 0, 3, 3), (10, 10, 0, 0, 11, 3), (10, 10, 0, 8, 3, 3), (10, 10, 0, 0, 3, -1)]:
        try:
            StudyTiling(bad[0], bad[1]).compute_for_subimage(*bad[2:])
            add("gen study_sub " + " ".join(map(str, bad)), "no-error")
        except ValueError:
            add("gen study_sub " + " ".join(map(str, bad)), "value-error")
    for ty in (0, 1, 100, 255):
        for hh in (1, 2, 256 - ty):
            y1 = 255 - ty
            add(f"gen flip_tile {ty} {hh}", f"{y1} {y1 - hh}")
    h.sample({"stream": "gen-diff", "request": lines[len(lines) // 2], "impl": py[len(lines) // 2]})
    try:
        out = lean_driver(lines)
        diff_streams(h, "gen-diff", lines, py, out)
    except Exception as e:
        h.corr_fail("gen-diff", {"error": str(e)[-600:]})

    # ---- readback through the real tiler
    rb = []
    small = [1, 3, 200, 255, 256, 257, 300, 511, 513, 600]
    for fmt, modes in FORMAT_MODES.items():
        for mode in modes:
            n = 3 if h.deep else 1
            for _ in range(n):
                rb.append((fmt, mode, h.rng.choice(small), h.rng.choice(small), None))
    for fmt in ("npy", "fits", "png"):
        mode = {"npy": "F64", "fits": "F32", "png": "RGB"}[fmt]
        rb.append((fmt, mode, 257, 3, None))
        rb.append((fmt, mode, 700, 1025, (300, 5, 200, 700)))
        for _ in range(4 if h.deep else 1):
            w, hh = h.rng.choice([300, 513, 700, 1100]), h.rng.choice([260, 512, 900])
            sw, sh = h.rng.randint(1, w), h.rng.randint(1, hh)
            rb.append((fmt, mode, w, hh, (h.rng.randint(0, w - sw), h.rng.randint(0, hh - sh), sw, sh)))
    for (fmt, mode, w, hh, sub) in rb:
        h.case(("rb", fmt, mode, w, hh, sub))
        h.count("readback", f"{fmt}/{mode}")
        try:
            readback_case(h, fmt, mode, w, hh, sub)
        except Exception as e:  # a crash on a valid input is a failure of the property too
            h.violation(f"readback-crash:{fmt}/{mode}", f"tiling {fmt}/{mode} {w}x{hh} sub={sub} raised {type(e).__name__}: {e}",
                        input={"format": fmt, "mode": mode, "width": w, "height": hh, "sub": sub})
    h.sample({"stream": "readback", "case": rb[0]})
    h.sample({"stream": "oracle", "pairs": pairs[:5], "subs": subs[:2]})
    return h.finish()


if __name__ == "__main__":
    sys.exit(main())
