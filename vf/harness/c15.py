"""C15 harness: maskable-buffer methods vs the model, and tile persistence through PyramidIO."""
import os
import shutil
import sys
import tempfile
import warnings

import numpy as np

from .common import Harness, lean_driver, diff_streams

MODES = {
    "RGB": (np.uint8, 3, 4, np.uint8), "RGBA": (np.uint8, 4, 4, np.uint8), "F32": (np.float32, 1, 1, np.float32), "F64": (np.float64, 1, 1, np.float64),
    "F16x3": (np.float16, 3, 3, np.float16), "U8": (np.uint8, 1, 1, np.uint8), "I16": (np.int16, 1, 1, np.int16), "I32": (np.int32, 1, 1, np.int32),
}
# formats able to hold a mode without changing it (probed; see DESIGN.md C15)
CAPABLE = {"png": ["RGB", "RGBA"], "npy": list(MODES), "fits": ["RGBA", "RGB", "F32", "F64", "U8", "I16", "I32"]}


def rand_img(rng, mode, h, w, density):
    dt, ns, _nb, _ = MODES[mode]
    shape = (h, w) if ns == 1 and mode not in ("RGB", "RGBA", "F16x3") else (h, w, ns)
    r = np.random.RandomState(rng.randint(0, 2 ** 31 - 1))
    if np.dtype(dt).kind == "f":
        a = r.randint(1, 60, size=shape).astype(dt)
        mask = r.rand(*shape) < density
        a[mask] = np.nan
    else:
        a = r.randint(1, 100, size=shape).astype(dt)
        if mode == "RGBA":
            a[..., 3][r.rand(h, w) < density] = 0
        elif mode in ("U8", "I16", "I32"):
            a[r.rand(h, w) < density] = 0
    return a


def enc(a):
    a = np.asarray(a)
    if a.ndim == 2:
        a = a[..., None]

    def ch(v):
        return "n" if (isinstance(v, (float, np.floating)) and np.isnan(v)) else str(int(v))
    return ";".join("|".join(",".join(ch(v) for v in px) for px in row) for row in a)


def mk_slices(rng, bh, bw, ih, iw):
    """python slices as the code uses them + their encoding for the model"""
    ly = rng.randint(1, min(bh, ih))
    lx = rng.randint(1, min(bw, iw))
    iy0, ix0 = rng.randint(0, ih - ly), rng.randint(0, iw - lx)
    by0, bx0 = rng.randint(0, bh - ly), rng.randint(0, bw - lx)
    iy, ix, bx = slice(iy0, iy0 + ly), slice(ix0, ix0 + lx), slice(bx0, bx0 + lx)
    if rng.random() < 0.5:
        by = slice(by0, by0 + ly)
        ydesc = f"f {by0} {iy0} {ly}"
    else:
        start = by0 + ly - 1
        stop = start - ly
        by = slice(start, None if stop == -1 else stop, -1)
        ydesc = f"r {start} {iy0} {ly}"
    if rng.random() < 0.15:  # whole-array indexers (TileMerger / ToastSampler use slice(None)); buffer takes the source's shape
        return (slice(None), slice(None), slice(None), slice(None)), f"f 0 0 {ih}", f"f 0 0 {iw}", True
    return (iy, ix, by, bx), ydesc, f"f {bx0} {ix0} {lx}", False


def undefined_mask(mode, arr):
    """the property's notion of 'undefined' on a buffer array (independent of toasty)"""
    if mode in ("RGB", "RGBA"):
        return arr[..., 3] == 0
    if mode in ("F32", "F64"):
        return np.isnan(arr)
    if mode == "F16x3":
        return np.any(np.isnan(arr), axis=2)
    return arr == 0


def src_undefined(mode, arr):
    if mode == "RGB":
        return np.zeros(arr.shape[:2], dtype=bool)
    if mode == "RGBA":
        return arr[..., 3] == 0
    if mode in ("F32", "F64"):
        return np.isnan(arr)
    if mode == "F16x3":
        return np.any(np.isnan(arr), axis=2)
    return arr == 0


def same(a, b):
    a, b = np.asarray(a), np.asarray(b)
    return a.shape == b.shape and (np.array_equal(a, b, equal_nan=True) if a.dtype.kind == "f" else np.array_equal(a, b))


def main():
    h = Harness("C15")
    from toasty.image import Image, ImageMode
    from toasty.pyramid import PyramidIO, Pos
    rng = h.rng
    h.rule = ("eight image modes x buffer sizes 1..7 x slice indexers (forward, reversed incl. the -1->None stop, whole-array) x undefined densities 0, 0.3, 0.7, 1; "
              "operations fill / update / clear / is_completely_masked on real Image objects; persistence: write histories (masked after unmasked, ...) and read-back "
              "per format able to hold the mode; non-trivial = partial rectangle with a mixed mask; distinct by (mode, sizes, slices, mask seed)")
    lines, py = [], []
    n = 160 if h.deep else 40
    for mode in MODES:
        dt, ns, nb, bdt = MODES[mode]
        im_mode = getattr(ImageMode, mode)
        for k in range(n):
            bh, bw = rng.randint(1, 7), rng.randint(1, 7)
            ih, iw = rng.randint(1, 7), rng.randint(1, 7)
            dens = rng.choice([0.0, 0.3, 0.7, 1.0])
            src = rand_img(rng, mode, ih, iw, dens)
            (iy, ix, by, bx), ydesc, xdesc, whole = mk_slices(rng, bh, bw, ih, iw)
            if whole:
                bh, bw = ih, iw
            img = Image.from_array(src.copy())
            # ---- fill
            buf = im_mode.make_maskable_buffer(bh, bw)
            buf.asarray()[...] = 77  # stale content must not survive a fill
            img.fill_into_maskable_buffer(buf, iy, ix, by, bx)
            got = np.array(buf.asarray())
            lines.append(f"px fill {mode} {bh} {bw} {ydesc} {xdesc} {enc(src)}")
            py.append(enc(got))
            # property: outside undefined; inside = source (+alpha 255 for RGB)
            inside = np.zeros((bh, bw), dtype=bool)
            inside[by, bx] = True
            und = undefined_mask(mode, got)
            bad = None
            if not np.all(und[~inside]):
                bad = "a pixel outside the addressed rectangle is defined after fill"
            else:
                exp_in = src[iy, ix]
                gin = got[by, bx]
                if mode == "RGB":
                    if not (np.array_equal(gin[..., :3], exp_in) and np.all(gin[..., 3] == 255)):
                        bad = "the addressed rectangle does not hold the source pixels (opaque)"
                elif not same(gin, exp_in):
                    bad = "the addressed rectangle does not hold the source pixels"
            if bad:
                h.violation(f"fill:{mode}", f"fill_into_maskable_buffer[{mode}] buffer {bh}x{bw}, indexers {(iy, ix, by, bx)}: {bad}", input={"mode": mode, "src": enc(src), "slices": str((iy, ix, by, bx))})
            # ---- update into a random old buffer
            old = rand_img(rng, "RGBA" if mode == "RGB" else mode, bh, bw, rng.choice([0.0, 0.5, 1.0])).astype(bdt)
            buf2 = Image.from_array(old.copy())
            img.update_into_maskable_buffer(buf2, iy, ix, by, bx)
            got2 = np.array(buf2.asarray())
            lines.append(f"px update {mode} {bh} {bw} {ydesc} {xdesc} {enc(src)} {enc(old)}")
            py.append(enc(got2))
            bad = None
            sub_old, sub_new, sub_src = old[by, bx], got2[by, bx], src[iy, ix]
            su = src_undefined(mode, sub_src)
            frame_same = same(np.where(inside[..., None] if old.ndim == 3 else inside, 0, got2), np.where(inside[..., None] if old.ndim == 3 else inside, 0, old)) if old.dtype.kind != "f" else \
                np.array_equal(np.where(inside[..., None] if old.ndim == 3 else inside, 0, got2), np.where(inside[..., None] if old.ndim == 3 else inside, 0, old), equal_nan=True)
            if not frame_same:
                bad = "a pixel outside the addressed rectangle changed"
            elif mode in ("U8", "I16", "I32"):
                if not np.array_equal(sub_new, np.maximum(sub_old, sub_src)):
                    bad = "integer update is not the larger of the two values"
            else:
                conv = sub_src if mode != "RGB" else np.concatenate([sub_src, np.full(sub_src.shape[:2] + (1,), 255, dtype=np.uint8)], axis=2)
                keep = su
                e = np.where(keep[..., None] if conv.ndim == 3 else keep, sub_old, conv)
                if not same(sub_new, e.astype(sub_new.dtype)):
                    bad = "an addressed pixel is neither (source where the source is defined) nor (old value where it is undefined)"
            if bad:
                h.violation(f"update:{mode}", f"update_into_maskable_buffer[{mode}] buffer {bh}x{bw}, indexers {(iy, ix, by, bx)}: {bad}",
                            input={"mode": mode, "src": enc(src), "old": enc(old), "slices": str((iy, ix, by, bx))})
            # ---- masked / clear
            lines.append(f"px masked {mode} {bh} {bw} {enc(got2)}")
            py.append("true" if buf2.is_completely_masked() else "false")
            if mode not in ("U8", "I16", "I32") and bool(buf2.is_completely_masked()) != bool(np.all(undefined_mask(mode, got2))):
                h.violation(f"masked:{mode}", f"is_completely_masked[{mode}] = {buf2.is_completely_masked()} on a buffer whose pixels are {'all' if np.all(undefined_mask(mode, got2)) else 'not all'} undefined", input=enc(got2))
            buf2.clear()
            lines.append(f"px clear {mode} {bh} {bw}")
            py.append(enc(np.array(buf2.asarray())))
            nontriv = (not whole) and 0 < dens < 1
            h.case((mode, bh, bw, ih, iw, ydesc, xdesc, k) if nontriv else None)
            h.count("mode", mode)
            h.count("indexer", "whole" if whole else ("reversed" if ydesc.startswith("r") else "forward"))
            h.count("density", dens)
    h.sample({"request": lines[0][:200], "impl": py[0][:120]})
    # ---- persistence: histories of writes, read defaults, round trips
    root = tempfile.mkdtemp(prefix="vfc15_")
    try:
        k = 0
        # jpg is lossy: only the persistence rules (when a file exists, what a missing tile reads as) are checked for it
        for fmt, modes in list(CAPABLE.items()) + [("jpg", ["RGB", "RGBA"])]:
            for mode in modes:
                ntr = 3 if h.deep else 1
                for trial in range(ntr + 1):
                    k += 1
                    # the last trial addresses the tiles with an explicit `format=` that is not the pyramid's default (as the
                    # samplers and `transform` do); a tile of the default format sits at the same position and must survive
                    explicit = trial == ntr
                    dflt = fmt if not explicit else ("npy" if fmt != "npy" else "fits")
                    kw = {"format": fmt} if explicit else {}
                    pio = PyramidIO(os.path.join(root, f"p{k}"), default_format=dflt)
                    pos = Pos(2, rng.randint(0, 3), rng.randint(0, 3))
                    if explicit:
                        keep = np.full((256, 256), 7.0, dtype=np.float32)
                        pio.write_image(pos, Image.from_array(keep.copy()))
                    bmode = "RGBA" if mode == "RGB" else mode
                    im_mode = getattr(ImageMode, mode)
                    hist = [rng.choice(["full", "partial", "masked"]) for _ in range(rng.randint(1, 4))]
                    if trial == 0:
                        hist = ["partial", "masked", "full", "masked"][: rng.randint(2, 4)]
                    last = None
                    for step in hist:
                        dens = {"full": 0.0, "partial": 0.5, "masked": 1.0}[step]
                        arr = rand_img(rng, bmode, 256, 256, dens).astype(MODES[mode][3])
                        with warnings.catch_warnings():
                            warnings.simplefilter("ignore")
                            pio.write_image(pos, Image.from_array(arr.copy()), **kw)
                        last = arr
                    h.case(("persist", fmt, mode, tuple(hist), explicit))
                    h.count("persist", f"{fmt}/{mode}" + ("/explicit-format" if explicit else ""))
                    path = pio.tile_path(pos, makedirs=False, **kw)
                    if explicit:
                        with warnings.catch_warnings():
                            warnings.simplefilter("ignore")
                            other = pio.read_image(pos)
                        if other is None or not np.array_equal(other.asarray(), keep):
                            h.violation(f"persist:{mode}:other-format", f"{fmt}/{mode} history {hist} written with format={fmt!r} into a {dflt} pyramid: the {dflt} tile at the same position was {'removed' if other is None else 'altered'}",
                                        input={"format": fmt, "default_format": dflt, "mode": mode, "history": hist})
                    all_und = bool(np.all(undefined_mask(bmode, last))) and mode not in ("U8", "I16", "I32")
                    exists = os.path.exists(path)
                    tag = f"{fmt}/{mode} history {hist}" + (f" (explicit format= in a {dflt} pyramid)" if explicit else "")
                    if exists == all_und:
                        h.violation(f"persist:{mode}", f"{tag}: file {'exists' if exists else 'is absent'} although the last tile written was {'entirely' if all_und else 'not entirely'} undefined", input={"format": fmt, "default_format": dflt, "mode": mode, "history": hist})
                        continue
                    with warnings.catch_warnings():
                        warnings.simplefilter("ignore")
                        r_none = pio.read_image(pos, default="none", **kw)
                        r_mask = pio.read_image(pos, default="masked", masked_mode=im_mode, **kw)
                    if not exists:
                        if r_none is not None or r_mask is None or not np.all(undefined_mask(bmode, r_mask.asarray())) or r_mask.asarray().shape[:2] != (256, 256):
                            h.violation(f"readdefault:{mode}", f"{tag}: a missing tile reads back as {type(r_none).__name__} / a tile that is not all-undefined", input={"format": fmt, "mode": mode})
                        # the default tile must be fresh: mutate and ask again
                        r_mask.asarray()[...] = 1
                        r_again = pio.read_image(Pos(2, 0, 0) if pos != Pos(2, 0, 0) else Pos(2, 1, 1), default="masked", masked_mode=im_mode, **kw)
                        if not np.all(undefined_mask(bmode, r_again.asarray())):
                            h.violation(f"readdefault:{mode}:stale", f"{tag}: after one all-undefined default tile was modified, another missing tile reads back with defined pixels", input={"format": fmt, "mode": mode})
                    elif fmt == "jpg":
                        if r_none is None or r_none.asarray().shape[:2] != (256, 256):
                            h.violation(f"roundtrip:{fmt}:{mode}", f"{tag}: the stored tile does not read back as a 256x256 image", input={"format": fmt, "mode": mode})
                    else:
                        got = r_none.asarray()
                        want = last
                        if mode == "RGB" and fmt == "png":
                            pass
                        if r_none.mode.name != bmode and not (mode == "RGB" and r_none.mode.name in ("RGBA", "RGB")):
                            h.violation(f"roundtrip:{fmt}:{mode}", f"{tag}: tile written as {bmode} reads back with mode {r_none.mode.name}", input={"format": fmt, "mode": mode})
                        elif not same(got, want):
                            h.violation(f"roundtrip:{fmt}:{mode}", f"{tag}: tile reads back with different pixels", input={"format": fmt, "mode": mode})
                        else:
                            # histories on the object that came out of read_image: store it at ANOTHER position — it reads back there; then
                            # clear the original tile inside the read-modify-write interface — its file goes away
                            try:
                                pos2 = Pos(2, (pos.x + 1) % 4, pos.y)
                                with warnings.catch_warnings():
                                    warnings.simplefilter("ignore")
                                    pio.write_image(pos2, r_none, **kw)
                                    back2 = pio.read_image(pos2, default="none", **kw)
                                    if back2 is None or not same(back2.asarray(), want):
                                        h.violation(f"history:rewrite:{mode}", f"{tag}: the tile obtained from read_image, written at another position, {'is absent there' if back2 is None else 'reads back with different pixels'}",
                                                    input={"format": fmt, "mode": mode, "history": ["write", "read", "write elsewhere", "read"]})
                                    if fmt == "png" or mode in ("U8", "I16", "I32"):
                                        continue        # a tile loaded through PIL is not writeable in place (toasty itself only updates into it);
                                                        # integer tiles are never "entirely undefined" for the persistence rule (see above)
                                    with pio.update_image(pos, masked_mode=im_mode, default="masked", **kw) as basis:
                                        basis.clear()
                                    if os.path.exists(path):
                                        h.violation(f"history:clear:{mode}", f"{tag}: after the tile was cleared inside update_image its file still exists", input={"format": fmt, "mode": mode, "history": ["write", "update_image: clear()"]})
                                h.count("persist", "history-rewrite-clear")
                            except Exception as e:
                                h.violation(f"history:crash:{mode}", f"{tag}: rewrite / clear history raised {type(e).__name__}: {e}", input={"format": fmt, "mode": mode})
        # ---- the read-modify-write interface: two sources paint two rectangles of a tile that does not exist yet, through
        # `update_image(masked_mode=<the source's mode>, default="masked")` as the tilers do; afterwards exactly the painted pixels
        # are defined, with the sources' values, in every lossless format able to hold the mode
        for fmt, modes in list(CAPABLE.items()):
            for mode in modes:
                if mode in ("U8", "I16", "I32"):
                    continue            # zero means undefined there: covered by the buffer model above
                k += 1
                pio = PyramidIO(os.path.join(root, f"u{k}"), default_format=fmt)
                pos = Pos(1, rng.randint(0, 1), rng.randint(0, 1))
                bmode = "RGBA" if mode == "RGB" else mode
                im_mode = getattr(ImageMode, mode)
                rects = [(rng.randint(0, 100), rng.randint(0, 100), rng.randint(20, 120), rng.randint(20, 120)) for _ in range(2)]
                srcs = [rand_img(rng, mode, hh_, ww_, 0.0).astype(MODES[mode][3]) for (_y, _x, hh_, ww_) in rects]
                expect_def = np.zeros((256, 256), dtype=bool)
                tag = f"update_image x2 / {fmt}/{mode} rectangles {rects}"
                try:
                    with warnings.catch_warnings():
                        warnings.simplefilter("ignore")
                        for (y0, x0, hh_, ww_), src in zip(rects, srcs):
                            img = Image.from_array(src.copy())
                            with pio.update_image(pos, masked_mode=img.mode, default="masked") as basis:
                                img.update_into_maskable_buffer(basis, slice(0, hh_), slice(0, ww_), slice(y0, y0 + hh_), slice(x0, x0 + ww_))
                            expect_def[y0:y0 + hh_, x0:x0 + ww_] = True
                        back = pio.read_image(pos, default="none")
                except Exception as e:
                    h.violation(f"update:{mode}", f"{tag}: raised {type(e).__name__}: {e}", input={"format": fmt, "mode": mode, "rects": rects})
                    h.case(("update", fmt, mode))
                    continue
                h.case(("update", fmt, mode, tuple(rects)))
                h.count("update", f"{fmt}/{mode}")
                if back is None:
                    h.violation(f"update:{mode}", f"{tag}: no tile was stored", input={"format": fmt, "mode": mode, "rects": rects})
                    continue
                got = back.asarray()
                got_def = ~undefined_mask(bmode, got) if back.mode.name == bmode else None
                if back.mode.name != bmode:
                    h.violation(f"update:{mode}", f"{tag}: the stored tile reads back with mode {back.mode.name}, the buffer's mode is {bmode} (undefined pixels cannot be told apart any more)", input={"format": fmt, "mode": mode, "rects": rects})
                elif got_def is None or not np.array_equal(got_def, expect_def):
                    n_bad = int((got_def != expect_def).sum()) if got_def is not None else -1
                    h.violation(f"update:{mode}", f"{tag}: {n_bad} pixels are defined / undefined contrary to the two painted rectangles", input={"format": fmt, "mode": mode, "rects": rects})
                else:
                    (y0, x0, hh_, ww_), src = rects[1], srcs[1]
                    sub = got[y0:y0 + hh_, x0:x0 + ww_]
                    want = src if mode != "RGB" else np.concatenate([src, np.full(src.shape[:2] + (1,), 255, dtype=src.dtype)], axis=2)
                    if not same(sub, want):
                        h.violation(f"update:{mode}", f"{tag}: the second rectangle does not hold the second source's pixels", input={"format": fmt, "mode": mode, "rects": rects})
    finally:
        shutil.rmtree(root, ignore_errors=True)
    # ---- history: earlier in the same process an image loader was configured with `--black-to-transparent` (a `tile-study` run of
    # some photograph); that option belongs to that loader — tiles stored and read back afterwards are what was written
    root2 = tempfile.mkdtemp(prefix="vfc15b_")
    try:
        import argparse
        from toasty.image import ImageLoader as _IL, Image as _Im
        from toasty.pyramid import PyramidIO as _PIO, Pos as _Pos
        _IL.create_from_args(argparse.Namespace(black_to_transparent=True, colorspace_processing="srgb", psd_single_layer=None, crop=None))
        pio2 = _PIO(root2, default_format="png")
        r2 = np.random.RandomState(rng.randrange(2 ** 31))
        for mode_, ch_ in (("RGB", 3), ("RGBA", 4)):
            for all_black in (False, True):
                a = r2.randint(1, 255, size=(256, 256, ch_)).astype(np.uint8)
                blk = r2.rand(256, 256) < 0.2
                a[blk, :3] = 0
                if all_black:
                    a[..., :3] = 0
                if ch_ == 4:
                    a[..., 3] = 255
                pos_ = _Pos(1, ch_ - 3, int(all_black))
                with warnings.catch_warnings():
                    warnings.simplefilter("ignore")
                    pio2.write_image(pos_, _Im.from_array(a.copy()))
                    back = pio2.read_image(pos_)
                h.case(("after-black-to-transparent", mode_, all_black))
                h.count("history", "read-after-black-to-transparent-loader")
                tag = f"png/{mode_} tile with {'only' if all_black else 'some'} pure-black opaque pixels, stored and read back after an image loader with black_to_transparent=True was created in the process"
                if back is None:
                    h.violation("history:b2t", f"{tag}: reads back as absent", input={"mode": mode_, "all_black": all_black})
                elif back.mode.name != mode_:
                    h.violation("history:b2t", f"{tag}: reads back with mode {back.mode.name}", input={"mode": mode_, "all_black": all_black})
                elif not np.array_equal(back.asarray(), a):
                    nb = int((back.asarray() != a).any(axis=2).sum())
                    h.violation("history:b2t", f"{tag}: {nb} pixels read back changed", input={"mode": mode_, "all_black": all_black})
    except Exception as e:  # noqa
        h.violation("history:b2t:crash", f"read-back after a black-to-transparent loader raised {type(e).__name__}: {e}", input="b2t")
    finally:
        shutil.rmtree(root2, ignore_errors=True)
        try:
            import argparse
            from toasty.image import ImageLoader as _IL
            _IL.create_from_args(argparse.Namespace(black_to_transparent=False, colorspace_processing="srgb", psd_single_layer=None, crop=None))
        except Exception:
            pass
    try:
        out = lean_driver(lines)
        diff_streams(h, "buffers-vs-model", lines, py, out)
    except Exception as e:
        h.corr_fail("buffers-vs-model", {"error": str(e)[-800:]})
    return h.finish()


if __name__ == "__main__":
    sys.exit(main())
