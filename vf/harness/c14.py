"""C14 harness: DATAMIN/DATAMAX of every tile of cascaded FITS pyramids vs the finite range of the leaves beneath."""
import os
import shutil
import sys
import tempfile
import warnings

import numpy as np

from .common import Harness, lean_driver, diff_streams
from .c02 import run_cascade


def leaf_values(rng, r, style):
    """a 256x256 float32 leaf whose finite values are multiples of 1/8 (exact in float32)"""
    a = (r.randint(-400, 4000, size=(256, 256)) / 8.0).astype(np.float32)
    if style == "nonneg-with-zero":
        a = np.abs(a)
        a[r.randint(0, 256), r.randint(0, 256)] = 0.0
    elif style == "nonpos-with-zero":
        a = -np.abs(a)
        a[r.randint(0, 256), r.randint(0, 256)] = 0.0
    elif style == "all-negative":
        a = -np.abs(a) - 0.125
    elif style == "all-positive":
        a = np.abs(a) + 0.125
    elif style == "holes":
        a[r.rand(256, 256) < 0.4] = np.nan
    elif style == "mostly-nan":
        m = r.rand(256, 256) < 0.999
        a[m] = np.nan
    elif style == "all-nan":
        a[:] = np.nan
    return a


def _builder_range(base, depth, parallel):
    """Builder.cascade on an existing FITS pyramid: the range it records in the image set"""
    import toasty.par_util
    toasty.par_util.SHOW_INFORMATIONAL_MESSAGES = False
    from toasty.pyramid import PyramidIO
    from toasty.builder import Builder
    pio = PyramidIO(base, default_format="fits")
    b = Builder(pio)
    b.imgset.tile_levels = depth
    with warnings.catch_warnings():
        warnings.simplefilter("ignore")
        b.cascade(parallel=parallel)
    return float(b.imgset.data_min), float(b.imgset.data_max)


def tree_tokens(depth, leaves, lv=0, x=0, y=0):
    """prefix coding for the Lean model, values scaled by 8 to integers"""
    if lv == depth:
        a = leaves.get((x, y))
        if a is None:
            return ["L", "-"]
        v = a[np.isfinite(a)]
        if v.size == 0:
            return ["L", "-"]
        # min and max suffice for the range model
        return ["L", f"{int(round(float(v.min()) * 8))},{int(round(float(v.max()) * 8))}"]
    out = ["N"]
    for (ix, iy) in ((0, 0), (1, 0), (0, 1), (1, 1)):
        out += tree_tokens(depth, leaves, lv + 1, 2 * x + ix, 2 * y + iy)
    return out


def preorder_positions(depth, lv=0, x=0, y=0):
    out = [(lv, x, y)]
    if lv < depth:
        for (ix, iy) in ((0, 0), (1, 0), (0, 1), (1, 1)):
            out += preorder_positions(depth, lv + 1, 2 * x + ix, 2 * y + iy)
    return out


def main():
    h = Harness("C14")
    from astropy.io import fits
    from toasty.image import Image, ImageMode
    from toasty.pyramid import PyramidIO, Pos
    from toasty.builder import Builder
    rng = h.rng
    h.rule = ("FITS pyramids of depth 1-3 with sparse leaves; leaf styles: plain, holes, mostly-NaN, all-NaN, non-negative with an exact 0 minimum, non-positive with an exact 0 maximum, strictly negative, strictly positive; "
              "leaves written once (write_image) or built up by several update_image passes that extend the range; cascades serial and with 3 workers; Builder.cascade with 1 and 2 workers for the image-set range; "
              "every header compared with the finite range of the leaf values beneath; non-trivial = pyramid with a missing/all-NaN leaf or a repeated update; distinct by (depth, leaf set, styles, writer)")
    root = tempfile.mkdtemp(prefix="vfc14_")
    lines, py = [], []
    n = 30 if h.deep else 10
    try:
        for ci in range(n):
            depth = rng.choice([1, 2, 2, 3]) if h.deep else rng.choice([1, 2, 2])
            r = np.random.RandomState(rng.randint(0, 2 ** 31 - 1))
            writer = rng.choice(["write", "write", "update"])
            leaves, styles = {}, {}
            for x in range(2 ** depth):
                for y in range(2 ** depth):
                    if rng.random() < 0.7:
                        st = rng.choice(["plain", "holes", "mostly-nan", "all-nan", "nonneg-with-zero", "nonpos-with-zero", "all-negative", "all-positive"])
                        leaves[(x, y)] = leaf_values(rng, r, st)
                        styles[(x, y)] = st
            if not any(np.isfinite(a).any() for a in leaves.values()):
                leaves[(0, 0)] = leaf_values(rng, r, "plain")
                styles[(0, 0)] = "plain"
            for par in ((1, 3) if ci % 2 == 0 else (1,)):
                base = os.path.join(root, f"c{ci}_p{par}")
                pio = PyramidIO(base, default_format="fits")
                with warnings.catch_warnings():
                    warnings.simplefilter("ignore")
                    for (x, y), a in leaves.items():
                        pos = Pos(depth, x, y)
                        if writer == "write":
                            pio.write_image(pos, Image.from_array(a.copy()))
                        else:
                            # two passes: first a narrow-range part, then the rest (extends the range)
                            fin = np.isfinite(a)
                            med = np.nanmedian(a) if fin.any() else 0
                            first = np.where(fin & (np.abs(a - med) < 20), a, np.nan).astype(np.float32)
                            second = np.where(fin & ~(np.abs(a - med) < 20), a, np.nan).astype(np.float32)
                            for part in (first, second):
                                img = Image.from_array(part)
                                with pio.update_image(pos, masked_mode=ImageMode.F32, default="masked") as basis:
                                    img.update_into_maskable_buffer(basis, slice(None), slice(None), slice(None), slice(None))
                    pio.clean_lockfiles(depth)
                st = run_cascade(base, "fits", depth, par)
                h.count("cascade", f"par{par}/{writer}")
                if st != "ok":
                    h.violation(f"run:{par}", f"cascade of a FITS pyramid (depth {depth}, parallel={par}) {st}", input={"depth": depth, "leaves": sorted(leaves)})
                    continue
                got = []
                bad = None
                for (lv, x, y) in preorder_positions(depth):
                    below = [a for (lx, ly), a in leaves.items() if (lx >> (depth - lv), ly >> (depth - lv)) == (x, y)]
                    vals = np.concatenate([a[np.isfinite(a)] for a in below]) if below else np.array([], dtype=np.float32)
                    p = pio.tile_path(Pos(lv, x, y), makedirs=False)
                    if not os.path.exists(p):
                        got.append("x")
                        if vals.size:
                            bad = bad or f"tile ({lv},{x},{y}) is missing although finite leaf data lie beneath it"
                        continue
                    with fits.open(p) as hd:
                        hmin, hmax = hd[0].header.get("DATAMIN"), hd[0].header.get("DATAMAX")
                    got.append(("?" if hmin is None else str(int(round(hmin * 8)))) + ":" + ("?" if hmax is None else str(int(round(hmax * 8)))))
                    if vals.size == 0:
                        bad = bad or f"tile ({lv},{x},{y}) exists although no finite leaf data lie beneath it"
                    elif hmin is None or hmax is None or np.float32(hmin) != np.float32(vals.min()) or np.float32(hmax) != np.float32(vals.max()):
                        bad = bad or (f"tile ({lv},{x},{y}) records DATAMIN/DATAMAX = ({hmin}, {hmax}); the finite leaf values beneath it span "
                                      f"({float(vals.min())}, {float(vals.max())})")
                if bad:
                    key = "update" if writer == "update" else ("zero" if any(s.endswith("zero") for s in styles.values()) else "signed" if any(s.startswith("all-neg") or s.startswith("all-pos") for s in styles.values()) else "plain")
                    h.violation(f"range:{key}", f"FITS pyramid depth {depth}, leaves by {writer}, parallel={par}: {bad}",
                                input={"depth": depth, "writer": writer, "styles": {str(k): v for k, v in styles.items()}, "parallel": par}, observed=bad)
                if par == 1:
                    lines.append("range " + " ".join(tree_tokens(depth, leaves)))
                    py.append(" ".join(got))
                    # the image set gets the root's range, whatever the number of workers of Builder.cascade
                    from .common import run_isolated
                    allv = np.concatenate([a[np.isfinite(a)] for a in leaves.values()])
                    for bpar in ((1, 2) if ci % 3 == 0 else (1,)):
                        stb, val = run_isolated(_builder_range, (base, depth, bpar), 120)
                        h.count("builder", f"par{bpar}")
                        if stb != "ok":
                            h.violation("imageset:crash", f"Builder.cascade(parallel={bpar}) {stb}: {val}", input={"depth": depth, "parallel": bpar})
                        elif np.float32(val[0]) != np.float32(allv.min()) or np.float32(val[1]) != np.float32(allv.max()):
                            h.violation(f"imageset:par{bpar}", f"Builder.cascade(parallel={bpar}) recorded data range ({val[0]}, {val[1]}); the leaves span ({float(allv.min())}, {float(allv.max())})",
                                        input={"depth": depth, "writer": writer, "parallel": bpar})
                shutil.rmtree(base, ignore_errors=True)
            nontriv = len(leaves) < 4 ** depth or "all-nan" in styles.values() or writer == "update"
            h.case((depth, tuple(sorted(styles.items())), writer) if nontriv else None)
            for s_ in styles.values():
                h.count("leaf_style", s_)
            if ci < 2:
                h.sample({"depth": depth, "writer": writer, "styles": {str(k): v for k, v in list(styles.items())[:4]}})
        out = lean_driver(lines)
        diff_streams(h, "headers-vs-model", lines, py, out)
    except Exception:
        import traceback
        h.corr_fail("headers-vs-model", {"error": traceback.format_exc()[-1500:]})
    # ---- the FITS-to-TOAST workflow over SEVERAL images far apart on the sky: the root tile and the data set description carry the
    # range of ALL leaves, whichever image holds the extremes and whichever comes last
    try:
        import toasty
        import warnings as _w
        from astropy.io import fits as afits
        from astropy.wcs import WCS
        from toasty.pyramid import PyramidIO, Pos
        for oi, order in enumerate(((0, 1), (1, 0))):
            basem = os.path.join(root, f"multi{oi}")
            os.makedirs(basem)
            specs = [((40.0, 35.0), 100.0, 200.0), ((215.0, -40.0), -5.0, 5.0)]
            paths = []
            for j_, ((ra_, dec_), lo_, hi_) in enumerate(specs):
                w_ = WCS(naxis=2)
                w_.wcs.ctype = ["RA---TAN", "DEC--TAN"]
                w_.wcs.crval = [ra_, dec_]
                w_.wcs.crpix = [24.5, 24.5]
                w_.wcs.cdelt = [-0.5, 0.5]
                dat_ = np.linspace(lo_, hi_, 48 * 48, dtype=np.float32).reshape((48, 48))
                pth_ = os.path.join(basem, f"im{j_}.fits")
                afits.PrimaryHDU(dat_, header=w_.to_header()).writeto(pth_, overwrite=True)
                paths.append(pth_)
            with _w.catch_warnings():
                _w.simplefilter("ignore")
                odir, bld = toasty.tile_fits([paths[i] for i in order], out_dir=os.path.join(basem, "out"), tiling_method=toasty.TilingMethod.TOAST, parallel=1, start=3)
            pio_m = PyramidIO(odir, default_format="fits")
            lo_all, hi_all = np.inf, -np.inf
            for x in range(8):
                for y in range(8):
                    im_ = pio_m.read_image(Pos(3, x, y))
                    if im_ is not None:
                        a_ = im_.asarray()
                        if np.any(np.isfinite(a_)):
                            lo_all, hi_all = min(lo_all, float(np.nanmin(a_))), max(hi_all, float(np.nanmax(a_)))
            with afits.open(pio_m.tile_path(Pos(0, 0, 0), makedirs=False)) as hd_:
                rmin, rmax = float(hd_[0].header["DATAMIN"]), float(hd_[0].header["DATAMAX"])
            h.case(("tile_fits-toast-multi", order))
            h.count("workflow", "tile_fits-toast-2-images")
            tol = 1e-4 * max(1.0, abs(hi_all - lo_all))
            if abs(rmin - lo_all) > tol or abs(rmax - hi_all) > tol:
                h.violation("workflow:root-range", f"tile_fits([{', '.join('image %d' % i for i in order)}], TOAST, start=3): the root tile records DATAMIN/DATAMAX = ({rmin}, {rmax}); the level-3 tiles beneath it span ({lo_all}, {hi_all})",
                            input={"order": list(order), "ranges": [[100.0, 200.0], [-5.0, 5.0]]}, observed=[rmin, rmax])
            elif abs(float(bld.imgset.data_min) - lo_all) > tol or abs(float(bld.imgset.data_max) - hi_all) > tol:
                h.violation("workflow:wtml-range", f"tile_fits over two images: the data set description says ({bld.imgset.data_min}, {bld.imgset.data_max}), the leaves span ({lo_all}, {hi_all})", input={"order": list(order)})
        # ---- the single-image TAN route at every depth from 0 (an image that fits one tile: nothing to cascade, but the root tile IS
        # the full-resolution data and the data set description still has to carry its range)
        for (w_px, h_px) in ((120, 90), (256, 256), (300, 200), (700, 300)):
            baset = os.path.join(root, f"tan{w_px}x{h_px}")
            os.makedirs(baset)
            w_ = WCS(naxis=2)
            w_.wcs.ctype = ["RA---TAN", "DEC--TAN"]
            w_.wcs.crval = [120.0, -30.0]
            w_.wcs.crpix = [w_px / 2, h_px / 2]
            w_.wcs.cdelt = [-0.001, 0.001]
            rr = np.random.RandomState(w_px)
            dat_ = (rr.randint(17, 4000, size=(h_px, w_px)) / 8.0).astype(np.float32)
            dat_[rr.rand(h_px, w_px) < 0.1] = np.nan
            lo_d, hi_d = float(np.nanmin(dat_)), float(np.nanmax(dat_))
            pth_ = os.path.join(baset, "im.fits")
            afits.PrimaryHDU(dat_, header=w_.to_header()).writeto(pth_, overwrite=True)
            with _w.catch_warnings():
                _w.simplefilter("ignore")
                odir, bld = toasty.tile_fits(pth_, out_dir=os.path.join(baset, "out"), tiling_method=toasty.TilingMethod.TAN, parallel=1)
            from wwt_data_formats.folder import Folder
            f_ = Folder.from_file(os.path.join(odir, "index_rel.wtml"))
            iset = f_.children[0].get_default_imageset() if hasattr(f_.children[0], "get_default_imageset") else f_.children[0].foreground_image_set
            with afits.open(PyramidIO(odir, default_format="fits").tile_path(Pos(0, 0, 0), makedirs=False)) as hd_:
                rmin, rmax = float(hd_[0].header["DATAMIN"]), float(hd_[0].header["DATAMAX"])
            depth_ = int(iset.tile_levels)
            h.case(("tile_fits-tan", w_px, h_px))
            h.count("workflow", f"tile_fits-tan-depth{depth_}")
            tol = 1e-4 * max(1.0, abs(hi_d - lo_d))
            desc_ = f"tile_fits({w_px}x{h_px} image, TAN) [depth {depth_}]"
            if abs(rmin - lo_d) > tol or abs(rmax - hi_d) > tol:
                h.violation("workflow:tan-root-range", f"{desc_}: the root tile records DATAMIN/DATAMAX = ({rmin}, {rmax}); the image spans ({lo_d}, {hi_d})", input={"size": [w_px, h_px]}, observed=[rmin, rmax])
            elif abs(float(iset.data_min) - lo_d) > tol or abs(float(iset.data_max) - hi_d) > tol:
                h.violation("workflow:tan-wtml-range", f"{desc_}: index_rel.wtml records the data range ({iset.data_min}, {iset.data_max}); the image spans ({lo_d}, {hi_d})", input={"size": [w_px, h_px]}, observed=[float(iset.data_min), float(iset.data_max)])
            elif abs(float(bld.imgset.data_min) - lo_d) > tol or abs(float(bld.imgset.data_max) - hi_d) > tol:
                h.violation("workflow:tan-wtml-range", f"{desc_}: the returned description says ({bld.imgset.data_min}, {bld.imgset.data_max}); the image spans ({lo_d}, {hi_d})", input={"size": [w_px, h_px]})
    except Exception as e:
        import traceback
        h.violation("workflow:crash", f"multi-image tile_fits raised {type(e).__name__}: {e}", input="tile_fits", observed=traceback.format_exc()[-500:])
    finally:
        shutil.rmtree(root, ignore_errors=True)
    h.assumptions.append("leaf values are finite or NaN (±inf is outside the property's quantifier and is not generated)")
    return h.finish()


if __name__ == "__main__":
    sys.exit(main())
