"""C13 harness: position algebra, enumeration, counters vs visits."""
import os
import sys

from .common import Harness, lean_driver, diff_streams
from . import pyrgen


def fp(p):
    return "(%d,%d,%d)" % (p[0], p[1], p[2])


def fps(ps):
    return " ".join(fp((p.n, p.x, p.y)) if hasattr(p, "n") else fp(p) for p in ps)


def red_stream(pyr, fn):
    """Drive the real PyramidReductionIterator with one of the three data functions; render as the model does."""
    if fn == "leaf":
        d0 = 0
    elif fn == "live":
        d0 = 0
    else:
        d0 = (False, 0)
    r = pyr._make_iter_reducer(default_value=d0)
    out = []

    def sh(v):
        if fn == "ops":
            return ("true" if v[0] else "false") + "/" + str(v[1])
        return str(v)
    try:
        for pos, _tile, is_leaf, data in r:
            out.append(fp((pos.n, pos.x, pos.y)) + ("L" if is_leaf else "N") + "[" + ",".join(sh(v) for v in data) + "]")
            if fn == "leaf":
                v = 1 if is_leaf else data[0] + data[1] + data[2] + data[3]
            elif fn == "live":
                if is_leaf:
                    v = 1
                else:
                    v = data[0] + data[1] + data[2] + data[3]
                    if v:
                        v += 1
            else:
                if is_leaf:
                    v = (True, 0)
                else:
                    live = data[0][0] or data[1][0] or data[2][0] or data[3][0]
                    ops = data[0][1] + data[1][1] + data[2][1] + data[3][1]
                    v = (live, ops + 1 if live else ops)
            r.set_data(v)
    except AssertionError:
        return "assert-failed"
    done = r._generator is None
    try:
        fin = r.result()
    except Exception:
        fin = r._final_result
    return " ".join(out) + " => " + sh(fin) + (" true" if done else " false")


def main():
    h = Harness("C13")
    from toasty import pyramid as P
    from toasty.pyramid import Pos
    rng = h.rng
    h.rule = ("pyramids: all depth-1 accept-sets x apexes, all unfiltered depth<=2 x apexes, then random hierarchical accept-sets "
              "(dense/sparse/path/gappy, with unreachable accepted tiles) x apex (none / inside / outside the accepted region), depth<=5; "
              "non-trivial = filtered or sub-pyramid case with at least one leaf; distinct by (depth, kind, accept-set, apex)")
    lines, py = [], []

    def add(l, v):
        lines.append(l)
        py.append(v)

    # ---- position algebra (Gen and model)
    poss = [(n, x, y) for n in range(0, 4) for x in range(2 ** n) for y in range(2 ** n)]
    for _ in range(300 if h.deep else 60):
        n = rng.randint(4, 40)
        poss.append((n, rng.randrange(2 ** n), rng.randrange(2 ** n)))
    for p in poss:
        pos = Pos(*p)
        try:
            pp, ix, iy = P.pos_parent(pos)
            add("gen pos_parent %d %d %d" % p, f"{fp(pp)} {ix} {iy}")
            add("pyr parent %d.%d.%d" % p, f"{fp(pp)} {ix} {iy} {2 * iy + ix}")
            if pos not in P.pos_children(pp) or P.pos_children(pp)[2 * iy + ix] != pos:
                h.violation(f"algebra:{p}", f"pos_children(pos_parent({p})) does not hold {p} at slot 2*iy+ix", input=p)
        except ValueError:
            add("gen pos_parent %d %d %d" % p, "value-error")
            add("pyr parent %d.%d.%d" % p, "value-error")
        ch = P.pos_children(pos)
        add("gen pos_children %d %d %d" % p, fps(ch))
        add("pyr children %d.%d.%d" % p, fps(ch))
        for k, c in enumerate(ch):
            pp, ix, iy = P.pos_parent(c)
            if pp != pos or (ix, iy) != (k % 2, k // 2):
                h.violation(f"algebra:{p}", f"pos_parent(pos_children({p})[{k}]) = {pp},{ix},{iy}", input=p)
        h.case()
    for d in range(-1, 12):
        add(f"gen depth2tiles {d}", str(P.depth2tiles(d)))
        if d >= 0:
            add(f"gen tiles_at_depth {d}", str(P.tiles_at_depth(d)))
    for _ in range(400 if h.deep else 120):
        a = rng.choice(poss)
        if rng.random() < 0.5:
            k = rng.randint(0, a[0])
            b = pyrgen.anc(a, k)
            if rng.random() < 0.3 and k > 0:
                b = (k, b[1] ^ 1, b[2])
        else:
            b = rng.choice(poss)
        try:
            r = "true" if P.is_subtile(Pos(*a), Pos(*b)) else "false"
            exp = pyrgen.is_desc(a, b)
            if (r == "true") != exp:
                h.violation(f"issub:{a}:{b}", f"is_subtile({a},{b})={r} but the shift relation says {exp}", input=[a, b])
        except ValueError:
            r = "value-error"
            if a[0] >= b[0]:
                h.violation(f"issub:{a}:{b}", f"is_subtile({a},{b}) raised although the first is not shallower", input=[a, b])
        add("pyr issub %d.%d.%d %d.%d.%d" % (a + b), r)
        h.case()
    for d in range(0, 5):
        g = list(P.generate_pos(d))
        add(f"pyr genpos {d}", fps(g))
        # property on the real output
        seen = set()
        for q in g:
            t = (q.n, q.x, q.y)
            if t in seen:
                h.violation(f"genpos:{d}", f"generate_pos({d}) yields {t} twice", input=d)
            if q.n < d and not all((c.n, c.x, c.y) in seen for c in P.pos_children(q)):
                h.violation(f"genpos:{d}", f"generate_pos({d}) yields {t} before all its children", input=d)
            seen.add(t)
        want = {(n, x, y) for n in range(d + 1) for x in range(2 ** n) for y in range(2 ** n)}
        if seen != want:
            h.violation(f"genpos:{d}", f"generate_pos({d}) does not yield exactly the in-scope positions", input=d)
        h.case(("genpos", d))

    # ---- pyramids
    cases = pyrgen.cases(rng, 700 if h.deep else 150, 5 if h.deep else 4)
    nontrivial = 0
    par_budget = [120 if h.deep else 40]
    gap_budget = [60 if h.deep else 20]
    for c in cases:
        if c.apex is not None and c.apex[0] > c.depth:
            continue
        try:
            pyr = c.build()
        except Exception as e:
            h.violation(f"build:{c.line()}", f"building pyramid {c.line()} raised {e!r}", input=c.line())
            continue
        leaves, live, ops = c.spec()
        h.case(c.key() if (c.acc is not None or c.apex) and leaves else None)
        h.count("depth", c.depth)
        h.count("kind", c.kind + ("f" if c.acc is not None else "") + ("s" if c.apex else ""))
        h.count("leaves", min(len(leaves), 64) if len(leaves) < 4 else "4+")
        # generator and reducer correspondence
        try:
            gen = [pos for pos, _t in pyr._generator()]
            add("pyr generator " + c.line(), fps(gen))
            for fn in ("leaf", "live", "ops"):
                add(f"pyr red {fn} " + c.line(), red_stream(c.build(), fn))
        except Exception as e:
            h.violation(f"crash:{c.line()}", f"iterating pyramid {c.line()} raised {e!r}", input=c.line())
            continue
        # counters vs specification vs visits
        try:
            nl, nv, no = pyr.count_leaf_tiles(), pyr.count_live_tiles(), pyr.count_operations()
            vis_leaves, vis_ops = [], []
            c.build().visit_leaves(lambda pos, tile: vis_leaves.append((pos.n, pos.x, pos.y)), parallel=1)
            c.build().walk(lambda pos: vis_ops.append((pos.n, pos.x, pos.y)), parallel=1)
        except Exception as e:
            h.violation(f"crash:{c.line()}", f"counting/visiting pyramid {c.line()} raised {e!r}", input=c.line())
            continue
        add("pyr leaves " + c.line(), fps(vis_leaves))
        add("pyr walk " + c.line(), fps(vis_ops))
        bad = None
        if (nl, nv, no) != (len(leaves), len(live), len(ops)):
            bad = f"counts leaf/live/ops = {(nl, nv, no)} but the pyramid has {(len(leaves), len(live), len(ops))}"
        elif no + nl != nv:
            bad = f"operations + leaves != live: {no}+{nl}!={nv}"
        elif sorted(vis_leaves) != sorted(leaves):
            bad = f"visit_leaves visited {len(vis_leaves)} tiles, the leaf set has {len(leaves)}: e.g. {sorted(set(vis_leaves) ^ set(leaves))[:3]}"
        elif sorted(vis_ops) != sorted(ops):
            bad = f"walk visited {len(vis_ops)} tiles, the operation set has {len(ops)}: e.g. {sorted(set(vis_ops) ^ ops)[:3]}"
        # the same numbers for walks and leaf visits run by worker processes (simulated multiprocessing, random schedule)
        # (cases with an accepted tile just above the leaves that has no accepted child come first: they have their own budget)
        ap_ = c.apex or (0, 0, 0)
        gap1 = c.acc is not None and c.depth >= 2 and any(p[0] == c.depth - 1 and p not in live and c.reachable(p) and pyrgen.is_desc(p, ap_) for p in c.acc)
        if not bad and c.depth >= 2 and leaves and ((gap1 and gap_budget[0] > 0) or (par_budget[0] > 0 and (c.acc is not None or c.apex is not None or par_budget[0] % 5 == 0))):
            if gap1 and gap_budget[0] > 0:
                gap_budget[0] -= 1
                h.count("parallel-visits", "gap above the leaves")
            else:
                par_budget[0] -= 1
            from .. import simmp
            npar = rng.choice([2, 3])
            pv_ops, pv_leaves = [], []
            try:
                sim1 = simmp.simulate(lambda: c.build().walk(lambda pos: pv_ops.append((pos.n, pos.x, pos.y)), parallel=npar),
                                      simmp.RandomChooser(rng.randrange(2 ** 31), timeout_weight=0.05), max_steps=20000, hang_window=300)
                sim2 = simmp.simulate(lambda: c.build().visit_leaves(lambda pos, tile: pv_leaves.append((pos.n, pos.x, pos.y)), parallel=npar),
                                      simmp.RandomChooser(rng.randrange(2 ** 31), timeout_weight=0.05), max_steps=20000, hang_window=300)
                h.count("parallel-visits", f"{npar} workers")
                if sim1.outcome != "ok":
                    bad = f"a walk with {npar} workers ended with '{sim1.outcome}' "
                elif sorted(pv_ops) != sorted(ops):
                    bad = f"a walk with {npar} workers visited {len(pv_ops)} tiles, count_operations() = {no}: e.g. {sorted(set(pv_ops) ^ ops)[:3]}"
                elif sim2.outcome != "ok":
                    bad = f"visit_leaves with {npar} workers ended with '{sim2.outcome}' "
                elif sorted(pv_leaves) != sorted(leaves):
                    bad = f"visit_leaves with {npar} workers visited {len(pv_leaves)} tiles, count_leaf_tiles() = {nl}: e.g. {sorted(set(pv_leaves) ^ set(leaves))[:3]}"
            except Exception as e:  # noqa
                bad = f"a simulated parallel visit raised {e!r}"
        if bad:
            h.violation(f"counts:{c.line()}", f"pyramid [{c.line()}]: {bad}", input=c.line(), observed=bad)
        # sub-pyramid = restriction of the full result
        if c.apex is not None and not bad:
            full = pyrgen.PyrCase(c.depth, c.kind, c.acc, None)
            fl, fv, fo = full.spec()
            ap = c.apex
            if sorted(l for l in fl if pyrgen.is_desc(l, ap)) != sorted(leaves) and (ap[0] == 0 or full.reachable(ap)):
                h.violation(f"restrict:{c.line()}", f"[{c.line()}] sub-pyramid leaves are not the restriction of the full pyramid's", input=c.line())
        # histories on ONE object: count / walk it, restrict it with subpyramid(), use it again — whatever an object
        # retains from earlier calls must not leak across the restriction, and repeated calls must agree
        if c.apex is not None and not bad:
            try:
                from toasty.pyramid import Pos
                obj = pyrgen.PyrCase(c.depth, c.kind, c.acc, None).build()
                pre = (obj.count_leaf_tiles(), obj.count_live_tiles(), obj.count_operations())
                if rng.random() < 0.5:
                    obj.walk(lambda pos: None, parallel=1)
                if rng.random() < 0.5:
                    obj.visit_leaves(lambda pos, tile: None, parallel=1)
                obj.subpyramid(Pos(*c.apex))
                post = (obj.count_leaf_tiles(), obj.count_live_tiles(), obj.count_operations())
                hv_l, hv_o = [], []
                obj.visit_leaves(lambda pos, tile: hv_l.append((pos.n, pos.x, pos.y)), parallel=1)
                obj.walk(lambda pos: hv_o.append((pos.n, pos.x, pos.y)), parallel=1)
                post2 = (obj.count_leaf_tiles(), obj.count_live_tiles(), obj.count_operations())
                h.case(("history",) + c.key())
                h.count("history", "count-restrict-count")
                hbad = None
                if post != (len(leaves), len(live), len(ops)) or post2 != post:
                    hbad = f"after counting ({pre}) and then subpyramid({c.apex}) the same object reports leaf/live/ops = {post} (again: {post2}) but the sub-pyramid has {(len(leaves), len(live), len(ops))}"
                elif sorted(hv_l) != sorted(leaves) or sorted(hv_o) != sorted(ops):
                    hbad = f"after counting and then subpyramid({c.apex}) the same object visits {len(hv_l)} leaves / {len(hv_o)} operations, the sub-pyramid has {len(leaves)} / {len(ops)}"
                if hbad:
                    h.violation(f"history:{c.line()}", f"pyramid [{c.line()}]: {hbad}", input={"case": c.line(), "history": ["count_*", "subpyramid", "count_*", "visit_leaves", "walk", "count_*"]}, observed=hbad)
            except Exception as e:
                h.violation(f"history-crash:{c.line()}", f"count / subpyramid / count on one object [{c.line()}] raised {e!r}", input=c.line())
        if len(h.samples) < 3 and c.acc:
            h.sample({"case": c.line(), "counts": [nl, nv, no]})
    # ---- what a filtered sampling run VISITS: the leaves of the pyramid of the requested coordinate system under a filter that
    # looks at the tiles' coordinates (a position filter cannot tell the two systems apart)
    try:
        import shutil
        import tempfile
        import warnings
        import numpy as np
        from toasty import toast, samplers
        from toasty.pyramid import PyramidIO
        CS = toast.ToastCoordinateSystem
        vroot = tempfile.mkdtemp(prefix="vfc13_")
        try:
            for bi in range(6 if h.deep else 3):
                lon0 = rng.uniform(0.0, 6.0)
                box = (lon0, lon0 + rng.uniform(0.3, 1.2), rng.uniform(-1.2, 0.2), rng.uniform(0.3, 1.2))
                depth = rng.choice([2, 3])
                for nm, cs in (("a", CS.ASTRONOMICAL), ("p", CS.PLANETARY)):
                    flt = samplers._latlon_tile_filter(*box)
                    want = sorted((t.pos.n, t.pos.x, t.pos.y) for t in toast.generate_tiles_filtered(depth, flt, bottom_only=True, coordsys=cs))
                    base = os.path.join(vroot, f"b{bi}{nm}")
                    pio = PyramidIO(base, default_format="npy")
                    with warnings.catch_warnings():
                        warnings.simplefilter("ignore")
                        toast.sample_layer_filtered(pio, flt, (lambda lon, lat: np.ones(np.shape(lon), dtype=np.float64)), depth, coordsys=cs, parallel=1)
                    from toasty.pyramid import Pos
                    got = sorted((depth, x, y) for x in range(2 ** depth) for y in range(2 ** depth) if os.path.exists(pio.tile_path(Pos(depth, x, y), makedirs=False)))
                    h.case(("visited-filtered", nm, depth, tuple(round(v, 6) for v in box)))
                    h.count("visited-filtered", nm)
                    if got != want:
                        h.violation(f"visited:{nm}", f"{nm} system, depth {depth}, lon/lat box {tuple(round(v, 4) for v in box)}: sample_layer_filtered visited {len(got)} leaves, the filtered pyramid of that system has {len(want)}: "
                                    f"only visited {sorted(set(got) - set(want))[:3]}, never visited {sorted(set(want) - set(got))[:3]}", input={"system": nm, "depth": depth, "box": list(box)})
        finally:
            shutil.rmtree(vroot, ignore_errors=True)
    except Exception as e:
        import traceback
        h.violation("visited:crash", f"filtered sampling run raised {type(e).__name__}: {e}", input="visited-filtered", observed=traceback.format_exc()[-500:])
    try:
        out = lean_driver(lines)
        diff_streams(h, "model-vs-impl", lines, py, out)
    except Exception as e:
        h.corr_fail("model-vs-impl", {"error": str(e)[-800:]})
    return h.finish()


if __name__ == "__main__":
    sys.exit(main())
