"""C04 harness: TOAST tile construction routes.

(a) the real routes (`create_single_tile`, `generate_tiles[_filtered]`, the descent of
    `toast_tile_for_point`) executed on *symbolic* points — `toast.mid` replaced by a term
    constructor — and compared term by term with the Lean model over the free algebra;
(b) the same routes on floats (compiled extension and the transliterated .pyx): the four routes must
    return identical corners and orientation for one position, in both coordinate systems, in any
    call order;
(c) numerical validation of what the abstract model leaves as a parameter: `_mid` is the
    great-circle midpoint and commutes (to rounding), areas add up to 4π per level and parent =
    Σ children, neighbours share corner points."""
import math
import os
import sys

import numpy as np

from .common import Harness, lean_driver, diff_streams


def vertex(p):
    lon, lat = round(float(np.degrees(p[0])), 9) % 360.0, round(float(np.degrees(p[1])), 9)
    if lat == 90:
        return "N"
    if lat == -90:
        return "S"
    if lat == 0 and lon in (0.0, 90.0, 180.0, 270.0):
        return f"E{int(lon)}"
    raise ValueError(f"({lon}, {lat}) is not an octahedron vertex")


def S(p):
    return p if isinstance(p, str) else vertex(p)


def sym_mid(a, b):
    return f"m({S(a)},{S(b)})"


def tile_str(t):
    return f"({t.pos.n},{t.pos.x},{t.pos.y}) {'inc' if t.increasing else 'dec'} " + " ".join(S(c) for c in t.corners)


class Patched:
    """temporarily replace attributes of the toast module"""

    def __init__(self, mod, **kw):
        self.mod, self.kw, self.saved = mod, kw, {}

    def __enter__(self):
        for k, v in self.kw.items():
            self.saved[k] = getattr(self.mod, k)
            setattr(self.mod, k, v)

    def __exit__(self, *a):
        for k, v in self.saved.items():
            setattr(self.mod, k, v)


def xyz(p):
    lon, lat = float(p[0]), float(p[1])
    c = math.cos(lat)
    return np.array([math.cos(lon) * c, math.sin(lon) * c, math.sin(lat)])


def angdist(p, q):
    a, b = xyz(p), xyz(q)
    return float(np.arctan2(np.linalg.norm(np.cross(a, b)), np.dot(a, b)))


def vec_mid(p, q):
    m = xyz(p) + xyz(q)
    return m / np.linalg.norm(m)


def rand_accept(rng, depth):
    """hierarchical accept-set over positions (levels 1..depth)"""
    acc = set()
    frontier = [(1, x, y) for y in (0, 1) for x in (0, 1)]
    while frontier:
        p = frontier.pop()
        if rng.random() < 0.7:
            acc.add(p)
            if p[0] < depth:
                n, x, y = p
                frontier += [(n + 1, 2 * x + dx, 2 * y + dy) for dy in (0, 1) for dx in (0, 1)]
    return acc


def main():
    h = Harness("C04")
    rng = h.rng
    from toasty import toast
    from toasty.pyramid import Pos
    from .. import pyx2py
    CS = toast.ToastCoordinateSystem
    systems = [("a", CS.ASTRONOMICAL), ("p", CS.PLANETARY)]
    h.rule = ("symbolic runs of the real routes (single: every position to depth 3 and random ones to depth 9, the two coordinate systems interleaved; enumeration: depth 1-3, "
              "unfiltered and random hierarchical filters, both bottom_only; descent: scripted containment scores incl. ties and all-negative levels) against the Lean term model; "
              "float runs of the four routes for random positions to depth 12 in both systems and in mixed call order, with the compiled extension and with the transliterated .pyx; "
              "numeric midpoint / area / shared-corner validation; non-trivial = position at depth >= 2; distinct by (route, system, position or script)")
    lines, py = [], []

    # ------------------------------------------------------------------ (b) float routes
    repo = os.environ.get("TOASTY_REPO", "/repo")
    pyx = pyx2py.load(os.path.join(repo, "toasty", "_libtoasty.pyx"))
    modes = [("so", {}), ("pyx", {"mid": pyx["mid"], "subsample": pyx["subsample"]})]

    def corners_equal(a, b):
        try:
            return all(float(p[0]) == float(q[0]) and float(p[1]) == float(q[1]) for p, q in zip(a, b))
        except (TypeError, ValueError):
            return False          # corners that are not coordinate pairs (e.g. state kept from an earlier call)

    def show(cs_):
        try:
            return [tuple(map(float, c)) for c in cs_]
        except (TypeError, ValueError):
            return [str(c)[:40] for c in cs_]

    for mode, patch in modes:
        with Patched(toast, **patch):
            cases = []
            for _ in range(60 if h.deep else 16):
                n = rng.choice([1, 2, 3, 5, 8, 12]) if h.deep else rng.choice([1, 2, 3, 6, 10])
                cases.append((n, rng.randrange(2 ** n), rng.randrange(2 ** n)))
            for pos in cases:
                order = systems if rng.random() < 0.5 else systems[::-1]
                for nm, cs in order:
                    n, x, y = pos
                    try:
                        t1 = toast.create_single_tile(Pos(n, x, y), coordsys=cs)
                        float(t1.corners[0][0])
                    except Exception as e:  # noqa
                        h.violation(f"route:{mode}", f"{nm} system, position {pos} ({mode}): create_single_tile failed or returned non-numeric corners ({type(e).__name__}: {e})", input={"pos": pos, "system": nm, "mode": mode})
                        continue
                    # filtered enumeration restricted to the ancestors of the position

                    def anc(t, pos=pos):
                        k = pos[0] - t.pos.n
                        return k >= 0 and (pos[1] >> k) == t.pos.x and (pos[2] >> k) == t.pos.y
                    try:
                        got = [t for t in toast.generate_tiles_filtered(n, anc, bottom_only=True, coordsys=cs) if (t.pos.n, t.pos.x, t.pos.y) == pos]
                    except Exception as e:  # noqa
                        h.violation(f"route:{mode}", f"{nm} system, position {pos} ({mode}): filtered enumeration raised {type(e).__name__}: {e}", input={"pos": pos, "system": nm, "mode": mode})
                        continue
                    bad = None
                    if (t1.pos.n, t1.pos.x, t1.pos.y) != pos:
                        bad = f"create_single_tile returned position {tuple(t1.pos)}"
                    elif len(got) != 1:
                        bad = f"filtered enumeration yielded the position {len(got)} times"
                    elif not corners_equal(got[0].corners, t1.corners) or got[0].increasing != t1.increasing:
                        bad = f"filtered enumeration and create_single_tile disagree: {show(got[0].corners)} vs {show(t1.corners)}"
                    else:
                        # point lookup of the tile's centre
                        ce = toast.mid(t1.corners[3], t1.corners[1]) if t1.increasing else toast.mid(t1.corners[0], t1.corners[2])
                        t3 = toast.toast_tile_for_point(n, float(ce[1]), float(ce[0]) % (2 * math.pi), coordsys=cs)
                        if (t3.pos.n, t3.pos.x, t3.pos.y) == pos:
                            if n >= 2 and (not corners_equal(t3.corners, t1.corners) or t3.increasing != t1.increasing):
                                bad = f"point lookup returns corners {show(t3.corners)} for the tile whose corners are {show(t1.corners)}"
                        else:
                            # the centre of a tile is strictly inside it: a different position is a lookup error (C12), and
                            # the corners reported must still be those of the position reported
                            t4 = toast.create_single_tile(t3.pos, coordsys=cs)
                            if not corners_equal(t3.corners, t4.corners):
                                bad = f"point lookup reports position {tuple(t3.pos)} with corners that are not that position's"
                        if n <= 4 and not bad:
                            full = [t for t in toast.generate_tiles(n, bottom_only=True, coordsys=cs) if (t.pos.n, t.pos.x, t.pos.y) == pos]
                            if len(full) != 1 or not corners_equal(full[0].corners, t1.corners) or full[0].increasing != t1.increasing:
                                bad = "full enumeration and create_single_tile disagree"
                        if n <= 6 and n >= 1 and not bad and mode == "so":
                            # the routes through a `Pyramid` object: a pyramid filtered down to the position's ancestors, and a
                            # sub-pyramid whose apex is the position's parent — the tiles they hand out are the same tiles
                            from toasty.pyramid import Pyramid
                            for rname, pyr in (("filtered Pyramid", Pyramid.new_toast_filtered(n, anc, coordsys=cs)),
                                               ("sub-pyramid", Pyramid.new_toast(n, coordsys=cs).subpyramid(Pos(n - 1, x >> 1, y >> 1)))):
                                gotp = [t for (p_, t) in pyr._generator() if (p_.n, p_.x, p_.y) == pos]
                                if len(gotp) != 1 or gotp[0] is None:
                                    bad = f"the {rname} yields the position {len(gotp)} times"
                                elif not corners_equal(gotp[0].corners, t1.corners) or gotp[0].increasing != t1.increasing:
                                    bad = f"the {rname} hands out corners {show(gotp[0].corners)} for the tile whose corners are {show(t1.corners)}"
                                if bad:
                                    break
                    if bad:
                        h.violation(f"route:{mode}", f"{nm} system, position {pos} ({mode}): {bad}", input={"pos": pos, "system": nm, "mode": mode}, observed=bad)
                    h.case(("float", mode, nm, pos) if n >= 2 else None)
                    h.count("route", f"float-{mode}")

    # ------------------------------------------------------------------ the library's own bounding-box filter, and two pyramids alive at once
    try:
        from toasty.samplers import _latlon_tile_filter
        from toasty.pyramid import Pyramid
        for _ in range(6 if h.deep else 3):
            lon0 = rng.uniform(0, 2 * math.pi)
            lat0 = rng.uniform(-1.2, 0.9)
            box = (lon0, lon0 + rng.uniform(0.2, 2.5), lat0, lat0 + rng.uniform(0.1, 0.6))
            for nm, cs in systems:
                depth = 3
                bad = None
                nseen = 0
                for route in ("generate_tiles_filtered", "Pyramid.new_toast_filtered"):
                    flt = _latlon_tile_filter(*box)
                    if route == "generate_tiles_filtered":
                        tiles = list(toast.generate_tiles_filtered(depth, flt, bottom_only=False, coordsys=cs))
                    else:
                        tiles = [t for (_p, t) in Pyramid.new_toast_filtered(depth, flt, coordsys=cs)._generator() if t is not None]
                    for t in tiles:
                        if t.pos.n < 1:
                            continue
                        nseen += 1
                        ref = toast.create_single_tile(Pos(t.pos.n, t.pos.x, t.pos.y), coordsys=cs)
                        if not corners_equal(t.corners, ref.corners) or len(t.corners) != 4 or t.increasing != ref.increasing:
                            bad = (f"{route} with the library's lat/lon bounding-box filter {tuple(round(v, 3) for v in box)} yields position {tuple(t.pos)} with corners "
                                   f"{show(t.corners)}; create_single_tile gives {show(ref.corners)}")
                            break
                    if bad:
                        break
                h.case(("bbox-filter", nm, tuple(round(v, 6) for v in box)))
                h.count("route", "library-filter")
                if bad:
                    h.violation("route:library-filter", f"{nm} system: {bad}", input={"system": nm, "box": box, "depth": depth}, observed=bad)
        # two TOAST pyramids of different coordinate systems alive at the same time: each hands out the tiles of ITS system
        for n in (1, 2, 3):
            for first in (0, 1):
                pa = Pyramid.new_toast(n, coordsys=systems[first][1])
                pb = Pyramid.new_toast(n, coordsys=systems[1 - first][1])
                bad = None
                for (nm, cs), pyr in ((systems[first], pa), (systems[1 - first], pb)):
                    for (p_, t) in pyr._generator():
                        if p_.n < 1 or t is None:
                            continue
                        ref = toast.create_single_tile(Pos(p_.n, p_.x, p_.y), coordsys=cs)
                        if not corners_equal(t.corners, ref.corners) or t.increasing != ref.increasing:
                            bad = (f"a depth-{n} pyramid made for the {nm} system (another one for the other system made {'after' if pyr is pa else 'before'} it) hands out "
                                   f"position {tuple(p_)} with corners {show(t.corners)}; that system's tile has {show(ref.corners)}")
                            break
                    if bad:
                        break
                h.case(("two-pyramids", n, first))
                h.count("route", "two-pyramids")
                if bad:
                    h.violation("route:two-pyramids", bad, input={"depth": n, "first": systems[first][0]}, observed=bad)
    except Exception as e:
        h.violation("route:library-filter:crash", f"library-filter / two-pyramid routes raised {type(e).__name__}: {e}", input="library-filter")
    # ------------------------------------------------------------------ the tiles a WORKFLOW works on: `Builder.toast_base(…, is_planet=…,
    # tile_filter=…)` shows its filter (and fills) the tiles of the coordinate system the caller asked for
    try:
        import shutil
        import tempfile
        import warnings
        from toasty.builder import Builder
        from toasty.pyramid import PyramidIO
        wroot = tempfile.mkdtemp(prefix="vfc04_")
        try:
            for nm, cs in systems:
                seen = {}

                def rec(tile, seen=seen):
                    if tile.pos.n >= 1:
                        seen[(tile.pos.n, tile.pos.x, tile.pos.y)] = (tuple(tuple(float(v) for v in c_) for c_ in tile.corners), tile.increasing)
                    return True
                with warnings.catch_warnings():
                    warnings.simplefilter("ignore")
                    Builder(PyramidIO(os.path.join(wroot, nm), default_format="npy")).toast_base(
                        (lambda lon, lat: np.zeros(np.shape(lon))), 2, is_planet=(cs == toast.ToastCoordinateSystem.PLANETARY), tile_filter=rec, parallel=1)
                badw = None
                for pos_, (corn_, inc_) in sorted(seen.items()):
                    ref_ = toast.create_single_tile(Pos(*pos_), coordsys=cs)
                    if not corners_equal(corn_, ref_.corners) or inc_ != ref_.increasing:
                        badw = f"position {pos_}: the workflow's filter was shown corners {show(corn_)}, single-tile construction in the {nm} system gives {show(ref_.corners)}"
                        break
                if len(seen) != 20 and not badw:
                    badw = f"the filter was shown {len(seen)} tiles of levels 1-2 instead of 20"
                h.case(("workflow", nm))
                h.count("route", "builder-filtered")
                if badw:
                    h.violation("route:workflow", f"{nm} system, Builder.toast_base(depth 2, is_planet={nm == 'p'}, tile_filter=…): {badw}", input={"system": nm}, observed=badw)
        finally:
            shutil.rmtree(wroot, ignore_errors=True)
    except Exception as e:
        h.violation("route:workflow:crash", f"Builder.toast_base with a recording filter raised {type(e).__name__}: {e}", input="workflow")
    # ------------------------------------------------------------------ (c) numeric validation of the parameters
    for mode, patch in modes:
        with Patched(toast, **patch):
            worst_mid = worst_comm = 0.0
            for _ in range(400 if h.deep else 120):
                a = (rng.uniform(0, 2 * math.pi), rng.uniform(-1.5, 1.5))
                d = rng.choice([1.0, 0.1, 1e-3])
                b = (a[0] + rng.uniform(-d, d), max(-1.55, min(1.55, a[1] + rng.uniform(-d, d))))
                m = toast.mid(a, b)
                err = float(np.linalg.norm(xyz(m) - vec_mid(a, b)))
                worst_mid = max(worst_mid, err)
                worst_comm = max(worst_comm, angdist(m, toast.mid(b, a)))
                h.case()
            if worst_mid > 1e-9:
                h.violation(f"mid:{mode}", f"mid(a, b) is not the great-circle midpoint: deviation {worst_mid:.3g} rad ({mode})", input={"mode": mode})
            if worst_comm > 1e-9:
                h.violation(f"comm:{mode}", f"mid(a, b) and mid(b, a) differ by {worst_comm:.3g} rad ({mode})", input={"mode": mode})
            h.count("numeric", f"mid-{mode}")
            # areas, nesting, shared corners
            for nm, cs in systems:
                dmax = 5 if (h.deep and mode == "so") else 3
                tiles = {(t.pos.n, t.pos.x, t.pos.y): t for t in toast.generate_tiles(dmax, bottom_only=False, coordsys=cs)}
                area = {p: float(toast.toast_tile_area(t)) for p, t in tiles.items()}
                for n in range(1, dmax + 1):
                    tot = sum(a for p, a in area.items() if p[0] == n)
                    cnt = sum(1 for p in area if p[0] == n)
                    if cnt != 4 ** n or abs(tot - 4 * math.pi) > 1e-8:
                        h.violation(f"area:{mode}", f"{nm} system, level {n}: {cnt} tiles with total area {tot!r}, expected {4 ** n} tiles covering 4π ({mode})", input={"level": n, "system": nm})
                    h.case(("area", mode, nm, n))
                for (n, x, y), t in tiles.items():
                    if n < dmax:
                        kids = [tiles[(n + 1, 2 * x + dx, 2 * y + dy)] for dy in (0, 1) for dx in (0, 1)]
                        s = sum(area[(k.pos.n, k.pos.x, k.pos.y)] for k in kids)
                        if abs(s - area[(n, x, y)]) > 1e-9:
                            h.violation(f"nest:{mode}", f"{nm} system: tile {(n, x, y)} has area {area[(n, x, y)]!r} but its children add up to {s!r} ({mode})", input={"pos": (n, x, y), "system": nm})
                        # outer corners of the children are the parent's corners
                        for ci, k in ((0, kids[0]), (1, kids[1]), (2, kids[3]), (3, kids[2])):
                            if angdist(k.corners[ci], t.corners[ci]) > 1e-11:
                                h.violation(f"nest-corner:{mode}", f"{nm} system: corner {ci} of the child of {(n, x, y)} is not the parent's corner ({mode})", input={"pos": (n, x, y), "system": nm})
                    if x + 1 < 2 ** n and (n, x + 1, y) in tiles:
                        r = tiles[(n, x + 1, y)]
                        if angdist(t.corners[1], r.corners[0]) > 1e-11 or angdist(t.corners[2], r.corners[3]) > 1e-11:
                            h.violation(f"share:{mode}", f"{nm} system: tiles {(n, x, y)} and {(n, x + 1, y)} do not share their common edge ({mode})", input={"pos": (n, x, y), "system": nm})
                    if y + 1 < 2 ** n and (n, x, y + 1) in tiles:
                        b = tiles[(n, x, y + 1)]
                        if angdist(t.corners[3], b.corners[0]) > 1e-11 or angdist(t.corners[2], b.corners[1]) > 1e-11:
                            h.violation(f"share:{mode}", f"{nm} system: tiles {(n, x, y)} and {(n, x, y + 1)} do not share their common edge ({mode})", input={"pos": (n, x, y), "system": nm})
                    h.case()
                # deep tiles (sampled): the area reported for a tile against an independent solid angle (Van Oosterom–Strackee on the
                # corner vectors) and against the sum of its four children — relative, since the library's arccos-based arcs lose
                # absolute precision as tiles shrink
                def solid(t_):
                    c_ = [np.array(xyz(q)) for q in t_.corners]

                    def tri(a_, b_, d_):
                        return 2.0 * math.atan2(abs(float(np.dot(a_, np.cross(b_, d_)))), 1.0 + float(np.dot(a_, b_)) + float(np.dot(b_, d_)) + float(np.dot(d_, a_)))
                    return tri(c_[0], c_[1], c_[2]) + tri(c_[0], c_[2], c_[3])
                for _ in range(12 if h.deep else 5):
                    n = rng.choice([6, 7, 8, 9, 10, 12, 13])
                    x, y = rng.randrange(2 ** n), rng.randrange(2 ** n)
                    t_ = toast.create_single_tile(Pos(n, x, y), coordsys=cs)
                    a_ = float(toast.toast_tile_area(t_))
                    ref_ = solid(t_)
                    kids_ = [toast.create_single_tile(Pos(n + 1, 2 * x + dx, 2 * y + dy), coordsys=cs) for dy in (0, 1) for dx in (0, 1)]
                    sk_ = sum(float(toast.toast_tile_area(k_)) for k_ in kids_)
                    h.case(("deep-area", mode, nm, n, x, y))
                    h.count("numeric", f"deep-area-{mode}")
                    if not (abs(a_ - ref_) <= 1e-6 * ref_):
                        h.violation(f"area:{mode}", f"{nm} system: toast_tile_area of tile {(n, x, y)} is {a_!r}, the solid angle of its four corners is {ref_!r} (relative difference {abs(a_ - ref_) / ref_:.3g}) ({mode})",
                                    input={"pos": (n, x, y), "system": nm})
                    elif not (abs(sk_ - a_) <= 1e-6 * ref_):
                        h.violation(f"nest:{mode}", f"{nm} system: tile {(n, x, y)} has area {a_!r} but its children add up to {sk_!r} (relative difference {abs(sk_ - a_) / ref_:.3g}) ({mode})",
                                    input={"pos": (n, x, y), "system": nm})
                # documented layout: the point (lon 0, lat 0) is the middle of the right-hand (astronomical) / left-hand (planetary) side
                t = tiles[(1, 1, 0)] if nm == "a" else tiles[(1, 0, 0)]
                corner = t.corners[2] if nm == "a" else t.corners[3]
                if angdist(corner, (0.0, 0.0)) > 1e-12:
                    h.violation("layout", f"{nm} system: longitude 0 on the equator is not at the documented side of the square", input={"system": nm})
                h.count("numeric", f"areas-{mode}-{nm}")
    def symbolic_phase():
        # ------------------------------------------------------------------ (a) symbolic
        def sym_single(cs, pos):
            with Patched(toast, mid=sym_mid):
                try:
                    return tile_str(toast.create_single_tile(Pos(*pos), coordsys=cs))
                except ValueError as e:
                    return "error" if "n=0" in str(e) else f"raised {type(e).__name__}: {e}"
                except Exception as e:  # noqa
                    return f"raised {type(e).__name__}: {e}"
        poss = [(n, x, y) for n in range(0, 4) for y in range(2 ** n) for x in range(2 ** n)]
        for _ in range(120 if h.deep else 30):
            n = rng.randint(4, 9)
            poss.append((n, rng.randrange(2 ** n), rng.randrange(2 ** n)))
        for pos in poss:
            order = systems if rng.random() < 0.5 else systems[::-1]
            for nm, cs in order:
                lines.append(f"toast single {nm} {pos[0]}.{pos[1]}.{pos[2]}")
                py.append(sym_single(cs, pos))
                h.case(("single", nm, pos) if pos[0] >= 2 else None)
                h.count("route", "single-sym")
        # enumeration
        for depth in (1, 2, 3):
            for bo in (0, 1):
                for nm, cs in systems:
                    accs = [None] + [rand_accept(rng, depth) for _ in range(6 if h.deep else 2)]
                    for acc in accs:
                        spec = "*" if acc is None else (";".join("%d.%d.%d" % p for p in sorted(acc)) or "-")
                        lines.append(f"toast gen {nm} {depth} {bo} {spec}")
                        try:
                            with Patched(toast, mid=sym_mid):
                                if acc is None:
                                    tiles = list(toast.generate_tiles(depth, bottom_only=bool(bo), coordsys=cs))
                                else:
                                    tiles = list(toast.generate_tiles_filtered(depth, lambda t: (t.pos.n, t.pos.x, t.pos.y) in acc, bottom_only=bool(bo), coordsys=cs))
                            py.append(" | ".join(tile_str(t) for t in tiles))
                        except Exception as e:  # noqa  (e.g. corners that are not symbolic: state kept from an earlier call)
                            py.append(f"raised {type(e).__name__}: {str(e)[:80]}")
                        h.case(("gen", nm, depth, bo, spec) if depth >= 2 else None)
                        h.count("route", "enum-sym")
        # descent with scripted scores
        for _ in range(200 if h.deep else 50):
            nm, cs = rng.choice(systems)
            depth = rng.randint(1, 7)
            quadrant_lon = rng.choice([0.3, 2.0, 3.5, 5.0])      # any longitude; the level-1 choice is read back from the answer
            script = {}
            for lv in range(2, depth + 1):
                style = rng.choice(["zero", "zero", "neg", "tie", "multi-zero"])
                if style == "zero":
                    sc = [-rng.randint(1, 9) for _ in range(4)]
                    sc[rng.randrange(4)] = 0
                elif style == "multi-zero":
                    sc = [rng.choice([0, -1, -2]) for _ in range(4)]
                elif style == "tie":
                    v = -rng.randint(1, 5)
                    sc = [rng.choice([v, v - 1]) for _ in range(4)]
                else:
                    sc = [-rng.randint(1, 9) for _ in range(4)]
                script[lv] = sc
            real_score = toast._toast_tile_containment_score

            def scripted(tile, lat, lon, script=script, real=real_score):
                if tile.pos.n <= 1:
                    return real(tile, lat, lon)
                return float(script[tile.pos.n][(tile.pos.y % 2) * 2 + tile.pos.x % 2])
            try:
                with Patched(toast, mid=sym_mid, _toast_tile_containment_score=scripted):
                    t = toast.toast_tile_for_point(depth, 0.4, quadrant_lon, coordsys=cs)
                sx, sy = t.pos.x >> (t.pos.n - 1), t.pos.y >> (t.pos.n - 1)
                lines.append(f"toast lookup {nm} {sy * 2 + sx} " + " ".join(" ".join(str(v) for v in script[lv]) for lv in range(2, depth + 1)))
                py.append(tile_str(t))
            except Exception as e:  # noqa
                lines.append(f"toast lookup {nm} 0 " + " ".join(" ".join(str(v) for v in script[lv]) for lv in range(2, depth + 1)))
                py.append(f"raised {type(e).__name__}: {str(e)[:80]}")
            h.case(("descend", nm, depth, tuple(tuple(script[lv]) for lv in range(2, depth + 1))) if depth >= 2 else None)
            h.count("route", "descent-sym")
        try:
            out = lean_driver(lines)
            diff_streams(h, "symbolic-routes", lines, py, out)
        except Exception as e:
            h.corr_fail("symbolic-routes", {"error": str(e)[-800:]})

    symbolic_phase()
    return h.finish()


if __name__ == "__main__":
    sys.exit(main())
