"""C07 harness: tile filters.

(a) the compiled `tile_intersects_latlon_bbox`, the transliterated .pyx and the Lean model on the same exact inputs
    (grid-valued corners and boxes: ties, wrap-around, boxes wider than 2π, pole tiles);
    the real chunk reader / chunked sampler against the extracted chunk arithmetic;
(b) the property on real tiles: for lat/lon boxes, WCS image footprints and map chunks, every tile with a pixel
    centre inside (brute force over the tile's 65536 centres) and all its ancestors must pass the filter, and the
    filter must not touch the tile; image bounds must contain every pixel corner of the image;
(c) end to end: filtered sampling = unfiltered sampling (pixel for pixel); all chunks one after another = whole map."""
import math
import os
import shutil
import sys
import tempfile
import warnings
from fractions import Fraction

import numpy as np

from .common import Harness, lean_driver, diff_streams
from .c04 import Patched

TWOPI = 2 * math.pi


def frac(x):
    f = Fraction(float(x))
    return f"{f.numerator}/{f.denominator}"


class FakeJp2:
    def __init__(self, data):
        self.data = data
        self.shape = data.shape

    def __getitem__(self, idx):
        return self.data[idx]


def make_reader(data, tile_shape):
    from toasty.jpeg2000 import ChunkedJPEG2000Reader
    r = ChunkedJPEG2000Reader.__new__(ChunkedJPEG2000Reader)
    r._jp2 = FakeJp2(data)
    r._tile_shape = tile_shape
    r._fake_data = False
    return r


def in_box(lons, lats, box):
    """which points (radians) fall in the lat/lon box (lon modulo 2π)"""
    lon_min, lon_max, lat_min, lat_max = box
    if lon_max - lon_min >= TWOPI:
        okl = np.ones(lons.shape, dtype=bool)
    else:
        okl = ((lons - lon_min) % TWOPI) <= (lon_max - lon_min)
    return okl & (lats >= lat_min) & (lats <= lat_max)


def main():
    h = Harness("C07")
    rng = h.rng
    from toasty import toast, samplers, _libtoasty
    from toasty.pyramid import Pos
    from .. import pyx2py
    CS = toast.ToastCoordinateSystem
    systems = [("a", CS.ASTRONOMICAL), ("p", CS.PLANETARY)]
    repo = os.environ.get("TOASTY_REPO", "/repo")
    pyx = pyx2py.load(os.path.join(repo, "toasty", "_libtoasty.pyx"))
    h.rule = ("bbox test: grid-valued corner sets (real tiles and synthetic, incl. pole tiles and wrapped longitudes) x boxes (any origin in [-4π, 4π], widths from 0.01 to > 2π, ties with corner "
              "values) through the compiled function, the transliterated .pyx and the Lean model; chunk readers with random map / tile sizes; boxes, WCS images (1-400 px per axis, narrow ones, "
              "rotations, both parities, across RA=0, near the poles) and chunks against brute-force pixel-centre membership for all tiles to depth 4 (5 thorough) incl. ancestors; "
              "filtered vs full sampling; non-trivial = box/image/chunk that some but not all tiles intersect; distinct by configuration")
    lines, py = [], []
    TAU, PI, POLE = frac(6.28318530717958623200), frac(np.pi), frac(1.5707963)

    # ------------------------------------------------------------------ (a) the bbox decision: .so vs .pyx vs Lean
    def grid(lo, hi):
        return rng.randrange(int(lo * 64), int(hi * 64) + 1) / 64.0
    n_bbox = 600 if h.deep else 200
    mism = 0
    for k in range(n_bbox):
        style = rng.choice(["tile", "tile", "synthetic", "pole", "tie"])
        if style in ("tile", "tie"):
            nm, cs = rng.choice(systems)
            n = rng.randint(2, 6)
            t = toast.create_single_tile(Pos(n, rng.randrange(2 ** n), rng.randrange(2 ** n)), coordsys=cs)
            corners = np.array([[round(float(c[0]) * 64) / 64.0, round(float(c[1]) * 64) / 64.0] for c in t.corners])
        elif style == "pole":
            corners = np.array([[grid(-3, 6), grid(-1.5, 1.5)] for _ in range(4)])
            corners[rng.randrange(4), 1] = rng.choice([1.5707963267948966, -1.5707963267948966])
        else:
            base = grid(-6, 6)
            corners = np.array([[base + grid(0, 3.0), grid(-1.5, 1.5)] for _ in range(4)])
            if rng.random() < 0.5:
                corners[rng.randrange(4), 0] += rng.choice([-1, 1]) * 6.28125      # a corner on another branch (grid value near 2π)
        w = rng.choice([0.015625, 0.25, 1.0, 3.0, 6.5, 7.0])
        lon_min = grid(-12, 12)
        lon_max = lon_min + w
        lat_min = grid(-1.5, 1.4)
        lat_max = min(1.5625, lat_min + rng.choice([0.015625, 0.5, 2.0]))
        if style == "tie":
            which = rng.randrange(4)
            if which == 0:
                lon_max = float(corners[:, 0].min())
                lon_min = lon_max - w
            elif which == 1:
                lon_min = float(corners[:, 0].max())
                lon_max = lon_min + w
            elif which == 2:
                lat_min = float(corners[:, 1].max())
                lat_max = lat_min + 0.25
            else:
                lat_max = float(corners[:, 1].min())
                lat_min = lat_max - 0.25
        a_so = bool(_libtoasty.tile_intersects_latlon_bbox(corners.copy(), lon_min, lon_max, lat_min, lat_max))
        a_pyx = bool(pyx["tile_intersects_latlon_bbox"](corners.copy(), lon_min, lon_max, lat_min, lat_max))
        if a_so != a_pyx:
            h.corr_fail("so-vs-pyx", {"input": [corners.tolist(), lon_min, lon_max, lat_min, lat_max], "impl": a_so, "model": a_pyx})
        else:
            h.corr_ok("so-vs-pyx")
        lines.append("filter bbox 40 " + " ".join([TAU, PI, POLE] + [frac(v) for v in corners[:, 0]] + [frac(v) for v in corners[:, 1]] + [frac(lon_min), frac(lon_max), frac(lat_min), frac(lat_max)]))
        py.append("true" if a_pyx else "false")
        h.case(("bbox", style, k))
        h.count("bbox", style)
    # ---- chunk arithmetic
    chunk_cfgs = []
    for _ in range(30 if h.deep else 10):
        gw, gh = rng.randint(1, 40), rng.randint(1, 30)
        tw, th = rng.randint(1, gw + 3), rng.randint(1, gh + 3)
        chunk_cfgs.append((gw, gh, tw, th))
    for gw, gh, tw, th in chunk_cfgs:
        data = (np.arange(gh * gw, dtype=np.float64).reshape((gh, gw)) + 1.0)
        rd = make_reader(data, (th, tw))
        lines.append(f"filter nchunks {gw} {gh} {tw} {th}")
        py.append(str(rd.n_chunks))
        smp = samplers.ChunkedPlateCarreeSampler(rd, planetary=True)
        for i in [-1, rd.n_chunks] + list(range(rd.n_chunks))[:12]:
            lines.append(f"filter chunkspec {gw} {gh} {tw} {th} {i}")
            try:
                spec = rd.chunk_spec(i)
                py.append(" ".join(str(int(v)) for v in spec))
            except ValueError:
                py.append("ValueError")
                continue
            cx, cy, cw, ch = spec
            cd = rd.chunk_data(i)
            if cd.shape[:2] != (ch, cw) or cd[0, 0] != data[cy, cx]:
                h.corr_fail("chunk-data", {"input": [gw, gh, tw, th, i], "impl": [list(cd.shape), float(cd[0, 0])], "model": [[ch, cw], float(data[cy, cx])]})
            # sampler index on a few exact rational sky positions (in turns), away from pixel boundaries
            try:
                sf = smp.sampler(i)
            except Exception as e:  # noqa
                h.violation("sampler:chunk:raise", f"chunk {i} of a {gw}x{gh} map with {tw}x{th} tiles: building the chunk's sampler raised {type(e).__name__}: {e}", input={"map": [gw, gh, tw, th], "chunk": i})
                continue
            for _ in range(3):
                qlon = Fraction(rng.randrange(-3 * 997, 3 * 997), 997)
                qlat = Fraction(rng.randrange(-249, 250), 997)
                lon = np.full((256, 256), float(qlon) * TWOPI)
                lat = np.full((256, 256), float(qlat) * TWOPI)
                lines.append(f"filter index {gw} {gh} {cx} {cy} {cw} {ch} {qlon.numerator}/{qlon.denominator} {qlat.numerator}/{qlat.denominator}")
                try:
                    with warnings.catch_warnings():
                        warnings.simplefilter("ignore")
                        out = np.array(sf(lon, lat))
                except Exception as e:  # noqa
                    py.append(f"raised {type(e).__name__}")
                    h.violation("chunk:raise", f"chunk {i} ({cw}x{ch} at {cx},{cy}) of a {gw}x{gh} map: the chunk sampler raised {type(e).__name__}: {e} for the sky position "
                                f"(lon {float(qlon)} turns, lat {float(qlat)} turns)", input={"map": [gw, gh, tw, th], "chunk": i, "lon_turns": str(qlon), "lat_turns": str(qlat)})
                    continue
                v = out[0, 0]
                if np.isnan(v):
                    py.append("masked")
                else:
                    Y, X = divmod(int(v) - 1, gw)
                    py.append(f"{Y - cy} {X - cx} true")
        h.case(("chunks", gw, gh, tw, th))
        h.count("chunks", "grid")
    try:
        out = lean_driver(lines)
        # the model prints "<iy> <ix> false" when the position is not kept: canonicalise
        out2 = [("masked" if (l.startswith("filter index") and o.endswith(" false")) else o) for l, o in zip(lines, out)]
        # bbox ties that involve a rounded `+ TWOPI` are decided by the last bit: a disagreement that flips under a 1e-9 nudge is not one
        amb = 0
        keep_l, keep_p, keep_o = [], [], []
        for l, a, b in zip(lines, py, out2):
            if l.startswith("filter bbox") and a != b:
                toks = l.split()
                nudged = []
                for d in (1e-9, -1e-9):
                    for idx in (16, 17):
                        t2 = list(toks)
                        t2[idx] = frac(float(Fraction(t2[idx])) + d)
                        nudged.append(" ".join(t2))
                alt = lean_driver(nudged)
                if a in alt:
                    amb += 1
                    continue
            keep_l.append(l)
            keep_p.append(a)
            keep_o.append(b)
        h.count("bbox", "rounding-ties", amb)
        diff_streams(h, "filter-model", [l[:260] for l in keep_l], keep_p, keep_o)
    except Exception as e:
        h.corr_fail("filter-model", {"error": str(e)[-800:]})

    # ------------------------------------------------------------------ (b) no false negatives on real tiles
    dmax = 5 if h.thorough else 4
    tile_cache = {}

    def tiles_of(cs_name, cs):
        if cs_name not in tile_cache:
            d = {}
            for t in toast.generate_tiles(dmax, bottom_only=False, coordsys=cs):
                d[(t.pos.n, t.pos.x, t.pos.y)] = t
            tile_cache[cs_name] = d
        return tile_cache[cs_name]
    coords_cache = {}

    def coords(cs_name, t):
        key = (cs_name, t.pos.n, t.pos.x, t.pos.y)
        if key not in coords_cache:
            if len(coords_cache) > 1500:
                coords_cache.clear()
            lon, lat = toast.toast_tile_get_coords(t)
            coords_cache[key] = (np.array(lon), np.array(lat))
        return coords_cache[key]

    def check_filter(what, flt, member, cs_name, cs, depth, desc, inp):
        """member(lons, lats) -> bool mask of pixel centres that hold data"""
        tl = tiles_of(cs_name, cs)
        nacc = ndata = 0
        for (n, x, y), t in tl.items():
            if n != depth:
                continue
            lon, lat = coords(cs_name, t)
            has = bool(np.any(member(lon, lat)))
            before = [tuple(map(float, c)) for c in t.corners]
            acc = bool(flt(t))
            after = [tuple(map(float, c)) for c in t.corners]
            if before != after:
                h.violation(f"{what}:mutates", f"{desc}: the filter changed the corners of tile {(n, x, y)}", input=inp)
            nacc += acc
            if has:
                ndata += 1
                # the tile and every ancestor the descent asks about
                p, k = (n, x, y), 0
                chain = []
                while p[0] >= 1:
                    chain.append(p)
                    p = (p[0] - 1, p[1] >> 1, p[2] >> 1)
                rejected = [q for q in chain if not flt(tl[q])]
                if rejected:
                    h.violation(f"{what}:hole", f"{desc}: tile {(n, x, y)} ({cs_name} system) has pixel centres holding data but the filter rejects {rejected[0]}"
                                f"{' (an ancestor: the whole subtree is pruned)' if rejected[0] != (n, x, y) else ''}", input=inp, observed=[list(q) for q in rejected])
        return nacc, ndata

    # lat/lon boxes
    for _ in range(40 if h.deep else 12):
        w = rng.choice([0.02, 0.3, 1.0, 3.0, 6.0, 6.5, 9.0])
        lon_min = rng.uniform(-10, 10)
        lat_min = rng.uniform(-1.6, 1.5)
        box = (lon_min, lon_min + w, lat_min, min(lat_min + rng.choice([0.02, 0.4, 1.5, 3.2]), 1.6))
        if rng.random() < 0.3:
            box = (box[0], box[1], box[2], math.pi / 2)           # touching the pole
        flt = samplers._latlon_tile_filter(*box)
        nm, cs = rng.choice(systems)
        depth = rng.randint(2, dmax)
        nacc, ndata = check_filter("box", flt, lambda lo, la, box=box: in_box(lo, la, box), nm, cs, depth, f"lat/lon box {tuple(round(v, 6) for v in box)} at depth {depth}", {"box": box, "system": nm, "depth": depth})
        h.case(("box", nm, depth, tuple(round(v, 9) for v in box)) if 0 < ndata < 4 ** depth else None)
        h.count("filter", "box")
    # WCS images
    from astropy.wcs import WCS
    n_img = 24 if h.deep else 8
    for ii in range(n_img):
        nx = rng.choice([1, 2, 5, 17, 31, 32, 33, 64, 150, 400])
        ny = rng.choice([1, 3, 8, 31, 40, 100, 300])
        scale = rng.choice([0.5, 0.05, 0.01, 2.0]) * (1.0 if max(nx, ny) < 100 else 0.2)
        rot = rng.uniform(0, 360)
        par = rng.choice([1, -1])
        ra = rng.choice([0.0, 359.9, 0.2, 180.0, rng.uniform(0, 360)])
        dec = rng.choice([0.0, 60.0, -75.0, 85.0, rng.uniform(-80, 80)])
        crpix = [(nx + 1) / 2.0, (ny + 1) / 2.0]
        if ii % 3 == 2:
            # an image that CONTAINS a celestial pole, anywhere in it — in particular, for elongated images, further along the
            # long axis than the short axis is long: the reference pixel is the pole itself
            nx, ny = rng.choice([(12, 4), (4, 12), (40, 7), (9, 60), (33, 33), (5, 3)])
            scale = rng.choice([5.0, 1.0, 0.3])
            dec = rng.choice([90.0, -90.0])
            lo_ax = min(nx, ny)
            far = rng.uniform(lo_ax + 0.6, max(nx, ny) - 0.4) if max(nx, ny) > lo_ax + 1 else rng.uniform(1.0, lo_ax)
            crpix = [far, rng.uniform(1.0, ny)] if nx >= ny else [rng.uniform(1.0, nx), far]
            h.count("image", "contains-pole")
        w = WCS(naxis=2)
        w.wcs.ctype = ["RA---TAN", "DEC--TAN"]
        w.wcs.crval = [ra, dec]
        w.wcs.crpix = crpix
        cr, sr = math.cos(math.radians(rot)), math.sin(math.radians(rot))
        w.wcs.cd = np.array([[-scale * cr * par, scale * sr], [scale * sr * par, scale * cr]])
        data = rng.random() + np.arange(ny * nx, dtype=np.float32).reshape((ny, nx))
        inp = {"nx": nx, "ny": ny, "scale": scale, "rot": rot, "parity": par, "ra": ra, "dec": dec, "crpix": [float(v) for v in crpix]}
        desc = f"{nx}x{ny} px TAN image at (ra {ra:.3f}, dec {dec:.3f}; reference pixel {crpix[0]:.2f},{crpix[1]:.2f}), {scale}°/px, rotation {rot:.1f}°, parity {par}"
        ws = samplers.WcsSampler(data, w)
        with warnings.catch_warnings():
            warnings.simplefilter("ignore")
            try:
                bounds = ws._image_bounds()
                flt = ws.filter()
            except Exception as e:  # noqa
                h.violation("image:raise", f"{desc}: _image_bounds raised {type(e).__name__}: {e}", input=inp)
                continue
        # every pixel corner of the image inside the bounds, up to the accuracy of sampling a curved edge at pixel resolution (0.1 px);
        # a larger shortfall is turned into a concrete tile: one that lies in the strip the bounds miss
        gx, gy = np.meshgrid(np.linspace(0.5, nx + 0.5, 2 * nx + 1), np.linspace(0.5, ny + 0.5, 2 * ny + 1))
        wl = w.wcs_pix2world(np.stack([gx.ravel(), gy.ravel()], axis=1), 1)
        lon_c, lat_c = np.radians(wl[:, 0]), np.radians(wl[:, 1])
        px_rad = math.radians(scale)
        short_lat = np.maximum(bounds[2] - lat_c, lat_c - bounds[3])
        span = bounds[1] - bounds[0]
        off = (lon_c - bounds[0]) % TWOPI
        short_lon = np.where(off > span, np.minimum(off - span, TWOPI - off) * np.cos(lat_c), 0.0) if span < TWOPI else np.zeros_like(off)
        short = np.maximum(short_lat, short_lon)
        kmax = int(np.argmax(short))
        h.count("bounds_shortfall_px", "<0.01" if short[kmax] / px_rad < 0.01 else "<0.1" if short[kmax] / px_rad < 0.1 else ">=0.1")
        if short[kmax] / px_rad >= 0.1:
            which = "latitude" if short_lat[kmax] >= short_lon[kmax] else "longitude"
            # a tile small enough to fit into the missed strip, around a point half-way into it
            lat_p, lon_p = float(lat_c[kmax]), float(lon_c[kmax]) % TWOPI
            if which == "latitude":
                lat_p -= math.copysign(0.5 * float(short[kmax]), lat_p - 0.5 * (bounds[2] + bounds[3]))
            depth_p = min(13, max(2, int(math.ceil(math.log2(math.pi / max(float(short[kmax]) / 3.0, 1e-6))))))
            tp = toast.toast_tile_for_point(depth_p, lat_p, lon_p)
            lo_t, la_t = toast.toast_tile_get_coords(tp)
            pxs = w.wcs_world2pix(np.stack([np.degrees(np.array(lo_t)).ravel(), np.degrees(np.array(la_t)).ravel()], axis=1), 1)
            has = bool(np.any((pxs[:, 0] >= 0.5) & (pxs[:, 0] <= nx + 0.5) & (pxs[:, 1] >= 0.5) & (pxs[:, 1] <= ny + 0.5)))
            acc = bool(flt(tp))
            msg = (f"{desc}: the bounds (lat [{float(bounds[2])!r}, {float(bounds[3])!r}], lon [{float(bounds[0])!r}, {float(bounds[1])!r}]) fall short of the image in {which} by {short[kmax] / px_rad:.2f} px")
            if has and not acc:
                h.violation("image:hole-deep", msg + f"; tile {tuple(tp.pos)} lies in the missed strip, has pixel centres inside the image, and is rejected by the filter",
                            input={**inp, "tile": list(tp.pos)}, observed=[float(v) for v in bounds])
            else:
                h.violation("image:bounds", msg, input=inp, observed=[float(v) for v in bounds])

        # a SECOND image with the very same WCS keywords but a larger pixel array (a cutout tiled before its full frame, in one
        # process): its bounds are its own, not the first one's
        if ii % 3 == 1 and max(nx, ny) <= 64:
            nx2, ny2 = 2 * nx + 3, 2 * ny + 1
            ws2 = samplers.WcsSampler(np.zeros((ny2, nx2), dtype=np.float32), w)
            with warnings.catch_warnings():
                warnings.simplefilter("ignore")
                try:
                    b2 = ws2._image_bounds()
                except Exception as e:  # noqa
                    b2 = None
                    h.violation("image:raise", f"{desc}, then the same WCS with {nx2}x{ny2} px: _image_bounds raised {type(e).__name__}: {e}", input={**inp, "second_shape": [nx2, ny2]})
            if b2 is not None:
                gx2, gy2 = np.meshgrid(np.linspace(0.5, nx2 + 0.5, 2 * nx2 + 1), np.linspace(0.5, ny2 + 0.5, 2 * ny2 + 1))
                wl2 = w.wcs_pix2world(np.stack([gx2.ravel(), gy2.ravel()], axis=1), 1)
                lat2 = np.radians(wl2[:, 1])
                sh2 = float(np.max(np.maximum(b2[2] - lat2, lat2 - b2[3]))) / px_rad
                h.case(("image-pair", nx, ny, nx2, ny2, round(ra, 6), round(dec, 6), round(rot, 3)))
                h.count("image", "same-wcs-larger-array")
                if sh2 >= 0.1:
                    h.violation("image:bounds:second", f"{desc}; a second sampler with the same WCS and {nx2}x{ny2} px reports latitude bounds [{float(b2[2])!r}, {float(b2[3])!r}] "
                                f"({'the first image\'s' if (float(b2[2]), float(b2[3])) == (float(bounds[2]), float(bounds[3])) else 'not its own'}), {sh2:.1f} px short of its own pixel array",
                                input={**inp, "second_shape": [nx2, ny2]}, observed=[float(v) for v in b2])

        def member(lo, la, w=w, nx=nx, ny=ny):
            px = w.wcs_world2pix(np.stack([np.degrees(lo).ravel(), np.degrees(la).ravel()], axis=1), 1)
            okp = (px[:, 0] >= 0.5) & (px[:, 0] <= nx + 0.5) & (px[:, 1] >= 0.5) & (px[:, 1] <= ny + 0.5)
            # the TAN projection also maps the far hemisphere: keep points within 90° of the reference point
            v = np.cos(la.ravel()) * np.cos(lo.ravel() - math.radians(ra)) * math.cos(math.radians(dec)) + np.sin(la.ravel()) * math.sin(math.radians(dec))
            return (okp & (v > 0) & np.isfinite(px[:, 0])).reshape(lo.shape)
        nm, cs = systems[0]
        depth = dmax if (max(nx, ny) * scale < 8) else rng.randint(2, dmax)
        with warnings.catch_warnings():
            warnings.simplefilter("ignore")
            nacc, ndata = check_filter("image", flt, member, nm, cs, depth, desc + f" at depth {depth}", inp)
        h.case(("image", ii, nx, ny, round(rot, 3), par, round(ra, 3), round(dec, 3)))
        h.count("filter", "image")
        h.count("image_axis_le_31", int(min(nx, ny) <= 31))
    # chunks
    for gw, gh, tw, th in chunk_cfgs[: (8 if h.deep else 3)]:
        data = (np.arange(gh * gw, dtype=np.float64).reshape((gh, gw)) + 1.0)
        rd = make_reader(data, (th, tw))
        smp = samplers.ChunkedPlateCarreeSampler(rd, planetary=True)
        nm, cs = systems[1]
        for i in list(range(rd.n_chunks))[:6]:
            cx, cy, cw, ch = rd.chunk_spec(i)

            def member(lo, la, cx=cx, cy=cy, cw=cw, ch=ch, gw=gw, gh=gh):
                u = ((lo + math.pi) % TWOPI) / TWOPI * gw
                v = (math.pi / 2 - la) / math.pi * gh
                eps = 1e-9
                return (u > cx + eps) & (u < cx + cw - eps) & (v > cy + eps) & (v < cy + ch - eps)
            depth = rng.randint(2, dmax)
            try:
                flt_i = smp.filter(i)
            except Exception as e:  # noqa  (a chunk grid for which no filter can be built is a failing input, not a harness error)
                h.violation("filter:chunk:raise", f"chunk {i} ({cw}x{ch} at {cx},{cy}) of a {gw}x{gh} map with {tw}x{th} tiles: building the chunk's tile filter raised {type(e).__name__}: {e}",
                            input={"map": [gw, gh, tw, th], "chunk": i})
                h.case(("chunk", gw, gh, tw, th, i, depth))
                continue
            check_filter("chunk", flt_i, member, nm, cs, depth, f"chunk {i} ({cw}x{ch} at {cx},{cy}) of a {gw}x{gh} map with {tw}x{th} tiles, depth {depth}", {"map": [gw, gh, tw, th], "chunk": i, "depth": depth})
            h.case(("chunk", gw, gh, tw, th, i, depth))
            h.count("filter", "chunk")

    # ------------------------------------------------------------------ (c) end to end
    from toasty.pyramid import PyramidIO
    root = tempfile.mkdtemp(prefix="vfc07_")
    try:
        # all chunks one after another = the whole map
        for ci, (gw, gh, tw, th) in enumerate(chunk_cfgs[: (4 if h.deep else 2)]):
            data = (np.arange(gh * gw, dtype=np.float64).reshape((gh, gw)) + 1.0)
            rd = make_reader(data, (th, tw))
            smp = samplers.ChunkedPlateCarreeSampler(rd, planetary=True)
            depth = 2
            base_c, base_w = os.path.join(root, f"ch{ci}"), os.path.join(root, f"wh{ci}")
            pio_c, pio_w = PyramidIO(base_c, default_format="npy"), PyramidIO(base_w, default_format="npy")
            bad = None
            try:
                with warnings.catch_warnings():
                    warnings.simplefilter("ignore")
                    if ci % 2 == 0:
                        # usage pattern B: ask for every chunk's (filter, sampler) pair FIRST, in a shuffled order, then use them — each
                        # pair belongs to its own chunk, whatever was requested from the object afterwards
                        idxs = list(range(rd.n_chunks))
                        rng.shuffle(idxs)
                        pairs = [(i, smp.filter(i), smp.sampler(i)) for i in idxs]
                        pairs.sort(key=lambda t: t[0])
                        for (_i, f_i, s_i) in pairs:
                            toast.sample_layer_filtered(pio_c, f_i, s_i, depth, coordsys=CS.PLANETARY, parallel=1)
                    else:
                        for i in range(rd.n_chunks):
                            toast.sample_layer_filtered(pio_c, smp.filter(i), smp.sampler(i), depth, coordsys=CS.PLANETARY, parallel=1)
                    toast.sample_layer(pio_w, samplers.plate_carree_planet_sampler(data), depth, coordsys=CS.PLANETARY, parallel=1)
            except Exception as e:  # noqa
                h.violation("e2e:chunks", f"{gw}x{gh} map in {tw}x{th} chunks ({rd.n_chunks} chunks), depth {depth}: sampling raised {type(e).__name__}: {e}", input={"map": [gw, gh, tw, th]})
                h.case(("e2e-chunks", gw, gh, tw, th))
                continue
            for y in range(4):
                for x in range(4):
                    if bad:
                        break
                    pw = pio_w.tile_path(Pos(depth, x, y), makedirs=False)
                    pc = pio_c.tile_path(Pos(depth, x, y), makedirs=False)
                    a = np.load(pw)
                    if not os.path.exists(pc):
                        bad = f"tile {(depth, x, y)} was never written by the chunked run"
                        break
                    b = np.load(pc)
                    ne = ~((a == b) | (np.isnan(a) & np.isnan(b)))
                    if np.any(ne):
                        # a sky position exactly on a pixel boundary of the map rounds half-to-even in chunk-local and in global coordinates,
                        # which differ when the chunk offset is odd (stated assumption): such pixels are not counted
                        lo_t, la_t = toast.toast_tile_get_coords(toast.create_single_tile(Pos(depth, x, y), coordsys=CS.PLANETARY))
                        u = ((np.array(lo_t) + math.pi) % TWOPI) / TWOPI * gw
                        v = (math.pi / 2 - np.array(la_t)) / math.pi * gh
                        on_edge = (np.abs(u - np.round(u)) < 1e-6) | (np.abs(v - np.round(v)) < 1e-6)
                        h.count("e2e_boundary_ties", "pixels", int(np.sum(ne & on_edge)))
                        ne = ne & ~on_edge
                    if np.any(ne):
                        idx = np.argwhere(ne)
                        i0, j0 = (int(v) for v in idx[0])
                        bad = f"tile {(depth, x, y)}: {len(idx)} pixels differ from whole-map sampling, e.g. pixel ({i0}, {j0}): chunks give {b[i0, j0]!r}, the whole map gives {a[i0, j0]!r}"
                        break
                if bad:
                    break
            if bad:
                h.violation("e2e:chunks", f"{gw}x{gh} map in {tw}x{th} chunks ({rd.n_chunks} chunks), depth {depth}: {bad}", input={"map": [gw, gh, tw, th]}, observed=bad)
            h.case(("e2e-chunks", gw, gh, tw, th))
            shutil.rmtree(base_c, ignore_errors=True)
            shutil.rmtree(base_w, ignore_errors=True)
        # filtered sampling = full sampling, WCS image
        for ii in range(3 if h.deep else 1):
            nx, ny = rng.choice([(40, 25), (9, 120), (64, 64)])
            w = WCS(naxis=2)
            w.wcs.ctype = ["RA---TAN", "DEC--TAN"]
            ra, dec = rng.choice([(0.1, 10.0), (200.0, -40.0), (359.95, 70.0)])
            w.wcs.crval = [ra, dec]
            w.wcs.crpix = [(nx + 1) / 2.0, (ny + 1) / 2.0]
            rot = rng.uniform(0, 360)
            cr, sr = math.cos(math.radians(rot)), math.sin(math.radians(rot))
            scale = 0.5
            w.wcs.cd = np.array([[-scale * cr, scale * sr], [scale * sr, scale * cr]])
            data = (np.arange(ny * nx, dtype=np.float32).reshape((ny, nx)) + 1.0)
            # a few saturated (infinite) and blank pixels: values like any other for the comparison of the two routes
            data[rng.randrange(ny), rng.randrange(nx)] = np.inf
            data[rng.randrange(ny), :] = -np.inf if ii % 2 else np.inf
            data[rng.randrange(ny), rng.randrange(nx)] = np.nan
            ws = samplers.WcsSampler(data, w)
            depth = 3
            base_f, base_a = os.path.join(root, f"f{ii}"), os.path.join(root, f"a{ii}")
            pio_f, pio_a = PyramidIO(base_f, default_format="npy"), PyramidIO(base_a, default_format="npy")
            with warnings.catch_warnings():
                warnings.simplefilter("ignore")
                toast.sample_layer_filtered(pio_f, ws.filter(), ws.sampler(), depth, parallel=1)
                toast.sample_layer(pio_a, ws.sampler(), depth, parallel=1)
            bad = None
            for y in range(2 ** depth):
                for x in range(2 ** depth):
                    pa = pio_a.tile_path(Pos(depth, x, y), makedirs=False)
                    pf = pio_f.tile_path(Pos(depth, x, y), makedirs=False)
                    a = np.load(pa) if os.path.exists(pa) else None
                    b = np.load(pf) if os.path.exists(pf) else None
                    a_has = a is not None and bool(np.any(~np.isnan(a)))
                    b_has = b is not None and bool(np.any(~np.isnan(b)))
                    if a_has != b_has or (a_has and not np.array_equal(a, b, equal_nan=True)):
                        n_miss = int(np.sum(~np.isnan(a))) if (a_has and not b_has) else (int(np.sum(~((a == b) | (np.isnan(a) & np.isnan(b))))) if (a_has and b_has) else 0)
                        bad = f"tile {(depth, x, y)}: filtered sampling {'left out' if not b_has else 'differs in'} {n_miss} pixels that full sampling fills"
                        break
                if bad:
                    break
            if bad:
                h.violation("e2e:image", f"{nx}x{ny} image at (ra {ra}, dec {dec}), rotation {rot:.1f}°: {bad}", input={"nx": nx, "ny": ny, "ra": ra, "dec": dec, "rot": rot}, observed=bad)
            h.case(("e2e-image", nx, ny, ra, dec, round(rot, 3)))
            shutil.rmtree(base_f, ignore_errors=True)
            shutil.rmtree(base_a, ignore_errors=True)
        # the FITS-to-TOAST workflow over SEVERAL images: `tile_fits(..., TOAST)` samples each image through its own footprint
        # filter; the base layer equals sampling every tile with every image, without any filter — also when one multi-extension
        # file is named twice to tile two of its HDUs
        try:
            import toasty
            from astropy.io import fits as afits
            for ci_ in range(2 if h.deep else 1):
                basem = os.path.join(root, f"multi{ci_}")
                os.makedirs(basem)
                hd_list = [afits.PrimaryHDU()]
                wlist = []
                for j_, (ra_, dec_) in enumerate(rng.sample([(60.0, 35.0), (250.0, -40.0), (150.0, 5.0), (330.0, 60.0)], 2)):
                    w_ = WCS(naxis=2)
                    w_.wcs.ctype = ["RA---TAN", "DEC--TAN"]
                    w_.wcs.crval = [ra_, dec_]
                    w_.wcs.crpix = [8.5, 8.5]
                    w_.wcs.cdelt = [-1.5, 1.5]
                    dat_ = (np.arange(256, dtype=np.float32).reshape((16, 16)) + 1000.0 * (j_ + 1))
                    hd_list.append(afits.ImageHDU(dat_, header=w_.to_header()))
                    wlist.append((dat_, w_))
                fpm = os.path.join(basem, "two.fits")
                afits.HDUList(hd_list).writeto(fpm, overwrite=True)
                depth_m = 3
                with warnings.catch_warnings():
                    warnings.simplefilter("ignore")
                    odir_m, _b = toasty.tile_fits([fpm, fpm], out_dir=os.path.join(basem, "out"), hdu_index=[1, 2], tiling_method=toasty.TilingMethod.TOAST, parallel=1, start=depth_m)
                    pio_r = PyramidIO(os.path.join(basem, "ref"), default_format="fits")
                    for (dat_, w_) in wlist:
                        toast.sample_layer_filtered(pio_r, (lambda t: True), samplers.WcsSampler(dat_, w_).sampler(), depth_m, parallel=1)
                pio_m = PyramidIO(odir_m, default_format="fits")
                badm = None
                for y in range(2 ** depth_m):
                    for x in range(2 ** depth_m):
                        a_ = pio_r.read_image(Pos(depth_m, x, y))
                        b_ = pio_m.read_image(Pos(depth_m, x, y))
                        a_has = a_ is not None and bool(np.any(~np.isnan(a_.asarray())))
                        b_has = b_ is not None and bool(np.any(~np.isnan(b_.asarray())))
                        if a_has != b_has or (a_has and not np.array_equal(a_.asarray(), b_.asarray(), equal_nan=True)):
                            which = sorted(set(int(v // 1000) for v in a_.asarray()[~np.isnan(a_.asarray())])) if a_has else []
                            badm = f"tile {(depth_m, x, y)}: the workflow {'left out' if not b_has else 'differs from'} what unfiltered sampling fills there (data of HDU(s) {which})"
                            break
                    if badm:
                        break
                h.case(("e2e-tile_fits-toast", ci_))
                h.count("filter", "tile_fits-multi")
                if badm:
                    h.violation("e2e:tile_fits", f"tile_fits([f, f], hdu_index=[1, 2], TOAST, start={depth_m}) over two 16x16 images at {[tuple(w_.wcs.crval) for (_d, w_) in wlist]}: {badm}",
                                input={"crvals": [list(map(float, w_.wcs.crval)) for (_d, w_) in wlist]}, observed=badm)
        except Exception as e:
            import traceback
            h.violation("e2e:tile_fits:crash", f"the multi-image tile_fits workflow raised {type(e).__name__}: {e}", input="tile_fits", observed=traceback.format_exc()[-600:])
    finally:
        shutil.rmtree(root, ignore_errors=True)
    return h.finish()


if __name__ == "__main__":
    sys.exit(main())
