"""C06 harness: real sample_layer / sample_layer_filtered runs read back file by file.

Every tile file is decoded with an independent reader (np.load / astropy / PIL, no toasty code) and
compared, pixel for pixel, with the sampler evaluated at the coordinates of that tile's own pixel
grid (`toast_tile_get_coords(create_single_tile(pos))`, `_level0_coords` for depth 0), rows reversed
for bottom-up formats; the set of files must be exactly the expected leaves.  Configurations: depth
0-3, both coordinate systems, default formats npy / fits / png with and without a `format` override
of the other parity, scalar (with undefined pixels) and RGB samplers, clobbering and updating mode
(two passes with complementary masks, pre-existing tiles), 1 and 3 worker processes.  Sampled stored
pixels are also replayed through the Lean model (`sample px`)."""
import math
import os
import shutil
import sys
import tempfile
import warnings

import numpy as np

from .common import Harness, lean_driver, diff_streams, run_isolated

TWOPI = 2 * math.pi


class Sampler:
    """picklable samplers: integer-valued so that every format stores them exactly"""

    def __init__(self, kind, mask=None, salt=0, delay=0.0):
        self.kind, self.mask, self.salt, self.delay = kind, mask, salt, delay

    def __call__(self, lon, lat):
        if self.delay:
            import time
            time.sleep(self.delay)          # a sampler that reads from a slow medium
        lon = np.asarray(lon) % TWOPI
        a = np.floor(lon / TWOPI * 2048).astype(np.int64) % 2048
        b = np.floor((np.asarray(lat) + math.pi / 2) / math.pi * 2047).astype(np.int64)
        if self.kind == "rgb":
            out = np.empty(lon.shape + (3,), dtype=np.uint8)
            out[..., 0] = (a // 8) % 256
            out[..., 1] = (b // 8) % 256
            out[..., 2] = (a + b + self.salt) % 256
            return out
        v = (a * 2048 + b + self.salt).astype(np.float64 if self.kind == "f64" else np.float32)
        if self.mask == "west":
            v[lon < math.pi] = np.nan
        elif self.mask == "east":
            v[lon >= math.pi] = np.nan
        elif self.mask == "south":
            v[np.asarray(lat) < 0.2] = np.nan
        elif self.mask == "all":
            v[...] = np.nan
        return v


class PosFilter:
    def __init__(self, acc):
        self.acc = acc

    def __call__(self, tile):
        return (tile.pos.n, tile.pos.x, tile.pos.y) in self.acc


def _run(base, dflt, override, depth, planetary, parallel, passes, acc, via_builder=False, prelude=False):
    """passes: list of samplers; unfiltered (acc None) uses sample_layer (clobber), else sample_layer_filtered;
    `via_builder`: the same through `Builder.toast_base(sampler, depth, is_planet=…, [tile_filter=…])`, one Builder per pass"""
    import toasty.par_util
    toasty.par_util.SHOW_INFORMATIONAL_MESSAGES = False
    from toasty import toast
    from toasty.pyramid import PyramidIO
    cs = toast.ToastCoordinateSystem.PLANETARY if planetary else toast.ToastCoordinateSystem.ASTRONOMICAL
    pio = PyramidIO(base, default_format=dflt)
    with warnings.catch_warnings():
        warnings.simplefilter("ignore")
        if prelude:
            # an earlier job of the same session: the same depth sampled in the OTHER coordinate system, into another directory
            import shutil
            other = toast.ToastCoordinateSystem.ASTRONOMICAL if planetary else toast.ToastCoordinateSystem.PLANETARY
            toast.sample_layer(PyramidIO(base + "_pre", default_format="npy"), passes[0], depth, coordsys=other, parallel=1)
            shutil.rmtree(base + "_pre", ignore_errors=True)
        for s in passes:
            if via_builder:
                from toasty.builder import Builder
                kw = {"parallel": parallel}
                if acc is not None:
                    kw["tile_filter"] = PosFilter(acc)
                elif override is not None:
                    kw["format"] = override
                Builder(pio).toast_base(s, depth, is_planet=planetary, **kw)
            elif acc is None:
                toast.sample_layer(pio, s, depth, coordsys=cs, format=override, parallel=parallel)
            else:
                toast.sample_layer_filtered(pio, PosFilter(acc), s, depth, coordsys=cs, parallel=parallel)
    return "ok"


def read_raw(path, fmt):
    if fmt == "npy":
        return np.load(path)
    if fmt == "fits":
        from astropy.io import fits
        with fits.open(path) as hd:
            return np.array(hd[0].data)
    from PIL import Image as PI
    return np.array(PI.open(path))


def level0_expected(toast, cs):
    """the pixel grid of the whole-sphere tile: the centres of the 256 x 256 level-8 tiles (C05), built here from the four
    level-1 tiles subdivided to 128 x 128"""
    lons = np.empty((256, 256))
    lats = np.empty((256, 256))
    for t in toast._create_level1_tiles(cs):
        a, b = toast.subsample(t.corners[0], t.corners[1], t.corners[2], t.corners[3], 128, t.increasing)
        lons[128 * t.pos.y:128 * (t.pos.y + 1), 128 * t.pos.x:128 * (t.pos.x + 1)] = a
        lats[128 * t.pos.y:128 * (t.pos.y + 1), 128 * t.pos.x:128 * (t.pos.x + 1)] = b
    return lons, lats


def rand_accept(rng, depth):
    acc = set()
    frontier = [(1, x, y) for y in (0, 1) for x in (0, 1)]
    while frontier:
        p = frontier.pop()
        if rng.random() < 0.65:
            acc.add(p)
            if p[0] < depth:
                n, x, y = p
                frontier += [(n + 1, 2 * x + dx, 2 * y + dy) for dy in (0, 1) for dx in (0, 1)]
    return acc


def px_str(v):
    v = np.atleast_1d(v)
    return ",".join("n" if (isinstance(x, (float, np.floating)) and np.isnan(x)) else str(int(x)) for x in v)


def main():
    h = Harness("C06")
    rng = h.rng
    from toasty import toast
    from toasty.pyramid import Pos
    CS = toast.ToastCoordinateSystem
    h.rule = ("real sample_layer / sample_layer_filtered runs: depth 0-2 (3 in the thorough tier), both coordinate systems, default format npy/fits/png, format override of the other parity, "
              "f64/f32 samplers with undefined regions and RGB samplers, clobber over pre-existing tiles, update in two passes with complementary masks, hierarchical random filters with "
              "leaf counts of every residue mod 4, serial and 3 worker processes; every file decoded independently and compared pixel by pixel; non-trivial = every run; distinct by configuration")
    root = tempfile.mkdtemp(prefix="vfc06_")
    lines, py = [], []
    configs = []
    # (default, override, sampler kind)
    fmt_cases = [("npy", None, "f64"), ("fits", None, "f32"), ("png", None, "rgb"), ("png", "fits", "f64"), ("fits", "npy", "f64"), ("npy", "fits", "f32")]
    n_cfg = 26 if h.deep else 10
    for ci in range(n_cfg):
        dflt, ov, kind = fmt_cases[ci % len(fmt_cases)]
        filtered = ci >= len(fmt_cases) and (ci % 3 != 2)
        if filtered:
            ov = None                       # sample_layer_filtered has no format override
            if dflt == "png":
                kind = "rgb"
        depth = rng.choice([0, 1, 2, 2, 3] if h.deep else [0, 1, 2, 2]) if not filtered else rng.choice([0, 1, 2, 3] if h.deep else [0, 1, 2, 2])
        planetary = rng.random() < 0.5
        configs.append((dflt, ov, kind, filtered, depth, planetary))
    # always: the whole-sphere tile through the filtered entry point, planetary (the only tile whose coordinates depend on the
    # coordinate system handed to the sampler rather than on the Tile)
    configs.append(("npy", None, "f64", True, 0, True))
    # ... and the whole-sphere tile in a bottom-up format, through both entry points (its rows are stored in reverse order like any other tile's)
    configs.append(("fits", None, "f32", True, 0, False))
    configs.append(("npy", "fits", "f64", False, 0, True))
    if len(configs) % 2 == 0:
        configs.append(("npy", None, "f64", False, 1, False))
    configs.append(("npy", None, "f64", True, 2, True))       # odd index: filtered, planetary, through the Builder
    # clobbering re-sample with a format override over a directory full of earlier tiles, the new map undefined on the southern sky: the
    # tiles that are entirely undefined now must disappear, in the format being written
    forced_south = {len(configs), len(configs) + 1}
    configs.append(("png", "fits", "f64", False, 2, False))
    configs.append(("npy", "fits", "f32", False, 2, True))
    # a slow sampler (several seconds a tile): the workers are still busy long after the last tile was handed out
    slow = set()
    if h.deep:
        slow.add(len(configs))
        configs.append(("npy", None, "f64", False, 1, False))
    try:
        for ci, (dflt, ov, kind, filtered, depth, planetary) in enumerate(configs):
            cs = CS.PLANETARY if planetary else CS.ASTRONOMICAL
            wf = ov or dflt
            bottom_up = wf == "fits"
            if filtered:
                acc = rand_accept(rng, depth)
                leaves = sorted(p for p in acc if p[0] == depth) if depth >= 1 else [(0, 0, 0)]      # the whole-sphere tile is never filtered
                if kind == "rgb":
                    passes = [Sampler("rgb", salt=1), Sampler("rgb", salt=2)]
                else:
                    m1, m2 = rng.choice([("west", "east"), ("east", "west"), ("south", None), (None, "south"), ("all", "west")])
                    passes = [Sampler(kind, m1, salt=1), Sampler(kind, m2, salt=2)]
            else:
                acc = None
                leaves = [(depth, x, y) for y in range(2 ** depth) for x in range(2 ** depth)]
                passes = [Sampler(kind, ("south" if ci in forced_south else rng.choice([None, "south"])) if kind != "rgb" else None, salt=3, delay=3.5 if ci in slow else 0.0)]
            results = {}
            for par in ((1, 2) if ci in slow else (1, 3)):
                base = os.path.join(root, f"c{ci}_p{par}")
                os.makedirs(base)
                # pre-existing content for the clobbering mode: a tile full of a marker value
                if not filtered and depth >= 1:
                    from toasty.pyramid import PyramidIO
                    from toasty.image import Image
                    pio0 = PyramidIO(base, default_format=wf)
                    junk = np.full((256, 256), 7.0) if kind != "rgb" else np.full((256, 256, 3), 9, dtype=np.uint8)
                    with warnings.catch_warnings():
                        warnings.simplefilter("ignore")
                        # … at every leaf position, so that a tile the new sampler leaves entirely undefined must actually be removed
                        for lf in leaves:
                            pio0.write_image(Pos(*lf), Image.from_array(junk.copy()), format=wf)
                # every other configuration goes through the Builder entry point (`toast_base`), which decides the coordinate system
                # from `is_planet` and hands everything else on
                via_builder = ci % 2 == 1
                # a third of the runs happen in a process that has just sampled the same depth in the other coordinate system
                prelude = ci % 3 == 0
                st, val = run_isolated(_run, (base, dflt, ov, depth, planetary, par, passes, acc, via_builder, prelude), 240)
                h.count("runs", f"{'filtered' if filtered else 'full'}/{wf}/par{par}" + ("/builder" if via_builder else "") + ("/after-other-system" if prelude else ""))
                desc = (("in a process that had just sampled the same depth in the other coordinate system: " if prelude else "") + ("Builder.toast_base[" if via_builder else "") + f"{'sample_layer_filtered' if filtered else 'sample_layer'}(depth {depth}, {'planetary' if planetary else 'astronomical'}, default {dflt}, format={ov}, {kind}, parallel={par})"
                        + ("]" if via_builder else ""))
                if st != "ok":
                    h.violation(f"run:{par}", f"{desc}: {st} {val}", input={"config": [dflt, ov, kind, filtered, depth, planetary], "parallel": par})
                    continue
                # ---- the files present
                from toasty.pyramid import PyramidIO
                pio = PyramidIO(base, default_format=wf)
                present = {}
                for dirpath, _dn, files in os.walk(base):
                    for f in files:
                        if f.endswith(".lock"):
                            continue
                        present[os.path.join(dirpath, f)] = True
                bad = None
                expected_paths = set()
                for pos in leaves:
                    if depth == 0:
                        lon, lat = level0_expected(toast, cs)
                    else:
                        lon, lat = toast.toast_tile_get_coords(toast.create_single_tile(Pos(*pos), coordsys=cs))
                    want = None
                    for s in passes:
                        v = s(lon, lat)
                        if want is None or kind == "rgb" or not filtered:
                            want = v
                        else:
                            want = np.where(np.isnan(v), want, v)
                    all_masked = kind != "rgb" and bool(np.all(np.isnan(want)))
                    path = pio.tile_path(Pos(*pos), format=wf, makedirs=False)
                    if all_masked:
                        if os.path.exists(path):
                            bad = f"tile {pos}: a file exists although every sampled pixel is undefined"
                        continue
                    expected_paths.add(path)
                    if not os.path.exists(path):
                        bad = f"tile {pos}: no file was written ({len([p for p in present])} files exist, {len(leaves)} tiles are due)"
                        break
                    raw = read_raw(path, wf)
                    if wf == "png" and raw.ndim == 3 and raw.shape[2] == 4:
                        if not np.all(raw[..., 3] == 255):
                            bad = f"tile {pos}: transparent pixels in an RGB tile"
                            break
                        raw = raw[..., :3]
                    stored_want = want[::-1] if bottom_up else want
                    if raw.shape != stored_want.shape:
                        bad = f"tile {pos}: stored array has shape {raw.shape}, expected {stored_want.shape}"
                        break
                    eq = (raw == stored_want) | ((raw != raw) & (stored_want != stored_want)) if kind != "rgb" else (raw == stored_want)
                    if not np.all(eq):
                        idx = tuple(int(v) for v in np.argwhere(~eq)[0])
                        flipped = np.array_equal(raw, stored_want[::-1], equal_nan=True) if kind != "rgb" else np.array_equal(raw, stored_want[::-1])
                        bad = (f"tile {pos}: stored pixel {idx[:2]} is {px_str(raw[idx[:2]])}, the sampler's value at that pixel's coordinates is {px_str(stored_want[idx[:2]])} "
                               f"({int((~eq).sum())} values differ{'; the rows are in the opposite order' if flipped else ''})")
                        break
                    results.setdefault(par, {})[pos] = raw
                    # ---- a few stored pixels through the Lean model (first pass only is modelled for clobber; update: last pass over the result of the first)
                    if par == 1 and len(lines) < (400 if h.deep else 120):
                        mode = {"f64": "F64", "f32": "F32", "rgb": "RGB"}[kind]
                        for _ in range(3):
                            r, c = rng.randrange(256), rng.randrange(256)
                            last = passes[-1](lon, lat)
                            if filtered and len(passes) == 2:
                                first = passes[0](lon, lat)
                                first_st = first[::-1] if bottom_up else first
                                if kind == "rgb":
                                    old = px_str(list(first_st[r, c]) + [255])
                                else:
                                    old = "-" if np.all(np.isnan(first)) else px_str(first_st[r, c])
                            else:
                                old = "-"
                            lines.append(f"sample px {mode} {dflt} {ov or '-'} {0 if filtered else 1} {old} {px_str(last[r, c])} {px_str(last[255 - r, c])}")
                            got = raw[r, c]
                            py.append(px_str(list(got) + [255]) if (kind == "rgb" and filtered) else px_str(got))
                if not bad:
                    extra = sorted(set(present) - expected_paths)
                    if extra:
                        bad = f"unexpected file(s) {[os.path.relpath(e, base) for e in extra[:3]]}"
                if bad:
                    h.violation(f"content:{'filtered' if filtered else 'full'}:{wf}:{par}", f"{desc}: {bad}",
                                input={"config": [dflt, ov, kind, filtered, depth, planetary], "parallel": par, "accept": sorted(acc) if acc else None}, observed=bad)
                h.case((ci, dflt, ov, kind, filtered, depth, planetary, par, tuple(leaves)[:20]))
                h.count("leaves_mod4", len(leaves) % 4)
                shutil.rmtree(base, ignore_errors=True)
        try:
            out = lean_driver(lines)
            diff_streams(h, "stored-pixels", lines, py, out)
        except Exception as e:
            h.corr_fail("stored-pixels", {"error": str(e)[-800:]})
        # ---- the command line: `toasty tile-allsky --projection P` fills every tile with the values of P's sampler at the tile's own
        # pixel centres in P's coordinate system (sky maps: astronomical; planet maps: planetary; a panorama is a sky map)
        try:
            from toasty import cli, samplers as SM
            from PIL import Image as PImage
            import contextlib
            import io as _io
            skyimg = np.random.RandomState(11).randint(1, 255, size=(24, 48, 3)).astype(np.uint8)
            srcp = os.path.join(root, "cli_sky.png")
            PImage.fromarray(skyimg, "RGB").save(srcp)
            table = {"plate-carree": (SM.plate_carree_sampler, False), "plate-carree-galactic": (SM.plate_carree_galactic_sampler, False),
                     "plate-carree-ecliptic": (SM.plate_carree_ecliptic_sampler, False), "plate-carree-planet": (SM.plate_carree_planet_sampler, True),
                     "plate-carree-planet-zeroleft": (SM.plate_carree_planet_zeroleft_sampler, True), "plate-carree-planet-zeroright": (SM.plate_carree_zeroright_sampler, True),
                     "plate-carree-panorama": (SM.plate_carree_sampler, False)}
            projs = list(table) if h.deep else ["plate-carree-panorama", "plate-carree-planet", "plate-carree-galactic", "plate-carree-ecliptic"]
            for proj in projs:
                mk, planet = table[proj]
                cs_ = CS.PLANETARY if planet else CS.ASTRONOMICAL
                outd = os.path.join(root, "cli_" + proj)
                with warnings.catch_warnings():
                    warnings.simplefilter("ignore")
                    with contextlib.redirect_stdout(_io.StringIO()), contextlib.redirect_stderr(_io.StringIO()):
                        cli.entrypoint(["tile-allsky", "--outdir", outd, "--placeholder-thumbnail", "--projection", proj, "--parallelism", "1", srcp, "1"])
                    smp_ = mk(skyimg)
                    badc = None
                    for (x, y) in ((0, 0), (1, 0), (0, 1), (1, 1)):
                        lon_, lat_ = toast.toast_tile_get_coords(toast.create_single_tile(Pos(1, x, y), coordsys=cs_))
                        want_ = smp_(lon_, lat_)
                        pth_ = os.path.join(outd, "1", str(y), f"{y}_{x}.png")
                        if not os.path.exists(pth_):
                            badc = f"tile (1,{x},{y}) was not written"
                            break
                        got_ = np.array(PImage.open(pth_))[..., :3]
                        ne_ = np.any(got_ != want_, axis=2)
                        if ne_.mean() > 0.002:          # a handful of pixels may sit on a cell boundary of the 48x24 map
                            badc = f"tile (1,{x},{y}): {int(ne_.sum())} of 65536 pixels are not the value of the {proj} sampler at the pixel's {'planetary' if planet else 'astronomical'} coordinates"
                            break
                h.case(("cli-allsky", proj))
                h.count("runs", "cli/" + proj)
                if badc:
                    h.violation("cli:tile-allsky", f"`toasty tile-allsky --projection {proj}` at depth 1: {badc}", input={"projection": proj}, observed=badc)
        except BaseException as e:  # noqa
            import traceback
            h.violation("cli:crash", f"`toasty tile-allsky` raised {type(e).__name__}: {e}", input="tile-allsky", observed=traceback.format_exc()[-500:])
    finally:
        shutil.rmtree(root, ignore_errors=True)
    return h.finish()


if __name__ == "__main__":
    sys.exit(main())
