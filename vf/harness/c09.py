"""C09 harness: real MultiTanProcessor runs against the tiling of the assembled mosaic.

A random mosaic (integer-valued floats with undefined regions) is cut into overlapping sub-images with
undefined borders, written as FITS files on one TAN grid (stored top-down or bottom-up, reference pixel
inside or outside the images), and tiled by the real code — output format fits (bottom-up tiles) or npy
(top-down), 1 or 3 worker processes, inputs in random order.  Every deepest-level tile is decoded with an
independent reader and compared with (a) the tile computed here from the assembled mosaic and the C08
geometry, and (b) the tiles the real code produces for the assembled mosaic given as a single image; the
astrometric description of the two data sets must be identical; no lock files may remain.  The global
pixelisation of every run is also replayed through the Lean model (`mosaic place`)."""
import math
import os
import shutil
import sys
import tempfile
import warnings

import numpy as np

from .common import Harness, lean_driver, diff_streams, run_isolated


def write_fits(path, data, crpix1, crpix2, scale, bottom_up, crval=(150.0, 20.0), rot=(1.0, 0.0)):
    """`data` is given top-down (row 0 = top of the sky image); crpix (1-based) refer to the top-down array; `rot` = (cos, sin) of
    the rotation of the shared projection (exact quarter turns have exact zeros in the matrix)"""
    from astropy.io import fits
    h = data.shape[0]
    hdr = fits.Header()
    hdr["CTYPE1"] = "RA---TAN"
    hdr["CTYPE2"] = "DEC--TAN"
    hdr["CRVAL1"] = crval[0]
    hdr["CRVAL2"] = crval[1]
    c_, s_ = rot
    # the matrix of the bottom-up (FITS-like) representation; storing the rows top-down negates its second column
    b11, b12, b21, b22 = -scale * c_, scale * s_, scale * s_, scale * c_
    hdr["CD1_1"] = b11
    hdr["CD2_1"] = b21
    if bottom_up:
        arr = data[::-1].copy()
        hdr["CD1_2"] = b12
        hdr["CD2_2"] = b22
        hdr["CRPIX1"] = float(crpix1)
        hdr["CRPIX2"] = float(h + 1 - crpix2)
    else:
        arr = data.copy()
        hdr["CD1_2"] = -b12 if b12 != 0 else 0.0
        hdr["CD2_2"] = -b22 if b22 != 0 else 0.0
        hdr["CRPIX1"] = float(crpix1)
        hdr["CRPIX2"] = float(crpix2)
    fits.PrimaryHDU(arr.astype(np.float32), header=hdr).writeto(path, overwrite=True)


def _run(paths, out_dir, fmt, parallel):
    import toasty.par_util
    toasty.par_util.SHOW_INFORMATIONAL_MESSAGES = False
    from toasty import collection, multi_tan
    from toasty.builder import Builder
    from toasty.pyramid import PyramidIO
    with warnings.catch_warnings():
        warnings.simplefilter("ignore")
        coll = collection.SimpleFitsCollection(paths)
        proc = multi_tan.MultiTanProcessor(coll)
        pio = PyramidIO(out_dir, default_format=fmt)
        bld = Builder(pio)
        rec = {}
        orig = bld.apply_wcs_info

        def spy(wcs, width, height):
            rec["crpix"] = [float(v) for v in wcs.wcs.crpix]
            rec["size"] = [int(width), int(height)]
            return orig(wcs, width, height)
        bld.apply_wcs_info = spy
        proc.compute_global_pixelization(bld)
        proc.tile(pio, parallel=parallel)
    im = bld.imgset
    desc = [[int(d.imin), int(d.jmin), int(d.imax + 1 - d.imin), int(d.jmax + 1 - d.jmin)] for d in proc._descs]
    inputs = [[float(-d.crxmin), float(-d.crymin), int(d.in_shape[1]), int(d.in_shape[0])] for d in proc._descs]
    astro = {k: (float(getattr(im, k)) if not isinstance(getattr(im, k), (bool, str)) else getattr(im, k))
             for k in ("center_x", "center_y", "rotation_deg", "offset_x", "offset_y", "base_degrees_per_tile", "tile_levels", "bottoms_up")}
    return {"rec": rec, "desc": desc, "inputs": inputs, "astro": astro, "levels": int(proc._tiling._tile_levels)}


def _study_astro(path, out_dir):
    """the astrometric description of ONE image tiled as a study (not through the multi-TAN code): parity made negative, the
    study tiling's levels, `Builder.apply_wcs_info` on the image's own WCS"""
    import toasty.par_util
    toasty.par_util.SHOW_INFORMATIONAL_MESSAGES = False
    from toasty import collection
    from toasty.builder import Builder
    from toasty.pyramid import PyramidIO
    from toasty.study import StudyTiling
    with warnings.catch_warnings():
        warnings.simplefilter("ignore")
        img = next(iter(collection.SimpleFitsCollection([path]).images()))
        img.ensure_negative_parity()
        bld = Builder(PyramidIO(out_dir, default_format="fits"))
        StudyTiling(img.width, img.height).apply_to_imageset(bld.imgset)
        bld.apply_wcs_info(img.wcs, img.width, img.height)
    im = bld.imgset
    return {k: (float(getattr(im, k)) if not isinstance(getattr(im, k), (bool, str)) else getattr(im, k))
            for k in ("center_x", "center_y", "rotation_deg", "offset_x", "offset_y", "base_degrees_per_tile", "tile_levels", "bottoms_up")}


def read_raw(path, fmt):
    if fmt == "npy":
        return np.load(path)
    from astropy.io import fits
    with fits.open(path) as hd:
        return np.array(hd[0].data)


def expected_tiles(E):
    """the C08 geometry: the image centred in the smallest 256·2^k square"""
    H, W = E.shape
    p2n = 256
    while p2n < max(W, H):
        p2n *= 2
    gx0, gy0 = (p2n - W) // 2, (p2n - H) // 2
    levels = int(round(math.log2(p2n // 256)))
    n = p2n // 256
    big = np.full((p2n, p2n), np.nan, dtype=np.float32)
    big[gy0:gy0 + H, gx0:gx0 + W] = E
    tiles = {}
    for ty in range(n):
        for tx in range(n):
            t = big[256 * ty:256 * ty + 256, 256 * tx:256 * tx + 256]
            if not np.all(np.isnan(t)):
                tiles[(tx, ty)] = t
    return levels, tiles


def collect(out_dir, fmt, levels):
    found, locks, other = {}, [], []
    for dirpath, _d, files in os.walk(out_dir):
        for f in files:
            p = os.path.join(dirpath, f)
            rel = os.path.relpath(p, out_dir)
            if f.endswith(".lock"):
                locks.append(rel)
            elif f.endswith("." + fmt):
                parts = rel.split(os.sep)          # L/Y/Y_X.ext
                try:
                    lv, y = int(parts[0]), int(parts[1])
                    x = int(parts[2].split("_")[1].split(".")[0])
                except Exception:
                    other.append(rel)
                    continue
                if lv == levels:
                    found[(x, y)] = p
                else:
                    other.append(rel)
            else:
                other.append(rel)
    return found, locks, other


def main():
    h = Harness("C09")
    rng = h.rng
    h.rule = ("random mosaics 40-900 px per axis (1x1 to 4x4 deepest tiles) with undefined regions, cut into 1-6 overlapping sub-images with undefined borders (values agree on overlaps), "
              "reference pixel inside or outside the images, inputs stored top-down / bottom-up / mixed, output fits or npy, 1 and 3 worker processes, shuffled input order; "
              "every deepest tile read back and compared with the assembled mosaic's tile, the astrometry with the single-image run; non-trivial = >= 2 inputs sharing a tile; distinct by configuration")
    root = tempfile.mkdtemp(prefix="vfc09_")
    lines, py = [], []
    n_cfg = 14 if h.deep else 5
    try:
        for ci in range(n_cfg):
            W = rng.choice([40, 200, 257, 300, 520, 700, 900])
            H = rng.choice([40, 130, 256, 400, 513, 800])
            # one configuration: MANY disjoint pieces inside ONE deepest tile, tiled by two workers — each worker updates the same
            # tile again and again with the other worker's updates in between
            strips = ci == 1
            if strips:
                W, H = 240, 200
            # another: two inputs that each span whole deepest tiles and each have an undefined strip (a bad column range) where the
            # other one is defined
            spanning = ci == 2
            if spanning:
                W, H = 640, 640
            npr = np.random.RandomState(rng.randrange(2 ** 31))
            M = npr.randint(1, 60000, size=(H, W)).astype(np.float32)
            # undefined blobs in the sky itself
            for _ in range(rng.randint(0, 3)):
                y0, x0 = rng.randrange(H), rng.randrange(W)
                M[y0:y0 + rng.randint(1, max(1, H // 5)), x0:x0 + rng.randint(1, max(1, W // 5))] = np.nan
            k = rng.randint(1, 6) if ci else 3
            if strips:
                k = 8
            if spanning:
                k = 2
            rects = []
            # make sure the union touches all four sides of the mosaic
            must = [(0, 0), (W - 1, H - 1)]
            for j in range(k):
                if strips:
                    ox, oy, w, hh = 30 * j, 0, 30, H
                elif spanning:
                    ox, oy, w, hh = (0, 0, 600, H) if j == 0 else (40, 0, 600, H)
                elif j < 2 and k >= 2:
                    px, py_ = must[j]
                    w = rng.randint(max(1, W // 3), W)
                    hh = rng.randint(max(1, H // 3), H)
                    ox = 0 if px == 0 else W - w
                    oy = 0 if py_ == 0 else H - hh
                elif k == 1:
                    ox, oy, w, hh = 0, 0, W, H
                else:
                    w = rng.randint(1, W)
                    hh = rng.randint(1, H)
                    ox = rng.randint(0, W - w)
                    oy = rng.randint(0, H - hh)
                rects.append((ox, oy, w, hh))
            E = np.full((H, W), np.nan, dtype=np.float32)
            subs = []
            for (ox, oy, w, hh) in rects:
                d = M[oy:oy + hh, ox:ox + w].copy()
                b = rng.choice([0, 0, 1, 3, 10])
                if b and w > 2 * b and hh > 2 * b:
                    d[:b, :] = np.nan
                    d[-b:, :] = np.nan
                    d[:, :b] = np.nan
                    d[:, -b:] = np.nan
                # undefined pixels of this input alone (bad columns, a masked star): other inputs may define them
                if spanning:
                    x0 = 100 + 150 * len(subs)
                    d[:, x0:x0 + 50] = np.nan
                elif not strips and rng.random() < 0.5 and w > 8 and hh > 8:
                    yb, xb = rng.randrange(hh), rng.randrange(w)
                    d[yb:yb + rng.randint(1, max(1, hh // 3)), xb:xb + rng.randint(1, max(1, w // 3))] = np.nan
                subs.append(d)
                cur = E[oy:oy + hh, ox:ox + w]
                E[oy:oy + hh, ox:ox + w] = np.where(np.isnan(d), cur, d)
            rx, ry = rng.choice([(W // 2, H // 2), (-50, -20), (W + 30, 10), (0, 0)])
            storage = rng.choice(["top-down", "bottom-up", "mixed"])
            scale = rng.choice([1e-3, 2.5e-4])
            rot_name, rot = rng.choice([("0", (1.0, 0.0)), ("90", (0.0, 1.0)), ("180", (-1.0, 0.0)), ("270", (0.0, -1.0)), ("30", (math.cos(math.radians(30)), math.sin(math.radians(30)))),
                                        ("0", (1.0, 0.0))])
            if ci == 0:
                rot_name, rot = "90", (0.0, 1.0)
            fmt = rng.choice(["fits", "npy"])
            cdir = os.path.join(root, f"c{ci}")
            os.makedirs(cdir)
            paths = []
            for j, ((ox, oy, w, hh), d) in enumerate(zip(rects, subs)):
                bu = storage == "bottom-up" or (storage == "mixed" and j % 2 == 1)
                p = os.path.join(cdir, f"in{j}.fits")
                write_fits(p, d, rx - ox + 1, ry - oy + 1, scale, bu, rot=rot)
                paths.append(p)
            pe = os.path.join(cdir, "assembled.fits")
            write_fits(pe, E, rx + 1, ry + 1, scale, storage == "bottom-up", rot=rot)
            levels, want = expected_tiles(E)
            desc = f"{W}x{H} mosaic from {k} input(s) {rects} stored {storage}, reference pixel ({rx},{ry}), projection rotated by {rot_name}°, output {fmt}"
            inp = {"W": W, "H": H, "rects": rects, "storage": storage, "ref": [rx, ry], "format": fmt, "rotation": rot_name}
            # the assembled mosaic through the real code
            single_dir = os.path.join(cdir, "single")
            st, single = run_isolated(_run, ([pe], single_dir, fmt, 1), 300)
            if st != "ok":
                h.violation("single:run", f"{desc}: tiling the assembled mosaic {st}: {single}", input=inp)
                continue
            st_s, study_astro = run_isolated(_study_astro, (pe, os.path.join(cdir, "study")), 120)
            if st_s != "ok":
                h.violation("study:run", f"{desc}: describing the assembled mosaic as a study {st_s}: {study_astro}", input=inp)
                study_astro = None
            # (the many-pieces-in-one-tile configuration is run with two REAL worker processes several times: whether a worker's
            # consecutive updates of the tile get another worker's update in between is up to the operating system)
            for rep, par in enumerate((1, 2, 2, 2, 2, 3, 3, 2, 2) if strips else (1, 3)):
                order = list(range(k))
                if not strips or rep >= 2:
                    rng.shuffle(order)
                out_dir = os.path.join(cdir, f"multi_p{par}")
                st, res = run_isolated(_run, ([paths[j] for j in order], out_dir, fmt, par), 300)
                h.count("runs", f"{fmt}/par{par}/{storage}")
                if st != "ok":
                    h.violation(f"run:{par}", f"{desc}, parallel={par}, order {order}: {st}: {res}", input={**inp, "order": order, "parallel": par})
                    continue
                bad = None
                # ---- global pixelisation: the Lean model and the property
                lines.append("mosaic place " + " ".join(f"{int(round(a))},{int(round(b))},{w},{hh}" for (a, b, w, hh) in res["inputs"]))
                py.append(f"{res['rec']['size'][0]} {res['rec']['size'][1]} | " + " ".join(",".join(str(v) for v in d) for d in res["desc"]) +
                          f" | {int(round(res['rec']['crpix'][0] - 1)) + 1} {int(round(res['rec']['crpix'][1] - 1)) + 1}")
                if res["rec"]["size"] != [W, H]:
                    bad = f"the mosaic is computed as {res['rec']['size'][0]}x{res['rec']['size'][1]} pixels, the inputs span {W}x{H}"
                elif sorted(res["desc"]) != sorted([list(r) for r in rects]):
                    bad = f"inputs placed at {res['desc']}, their positions in the mosaic are {[list(rects[j]) for j in order]}"
                elif res["levels"] != levels:
                    bad = f"{res['levels']} tile levels, the mosaic needs {levels}"
                # ---- the tiles
                if not bad:
                    found, locks, other = collect(out_dir, fmt, levels)
                    if locks:
                        bad = f"lock files remain: {locks[:3]}"
                    elif other:
                        bad = f"unexpected files: {other[:3]}"
                    elif set(found) != set(want):
                        miss = sorted(set(want) - set(found))
                        extra = sorted(set(found) - set(want))
                        bad = f"tiles missing {miss[:4]} / unexpected {extra[:4]} at level {levels}"
                    else:
                        for key, p in sorted(found.items()):
                            raw = read_raw(p, fmt)
                            w_st = want[key][::-1] if fmt == "fits" else want[key]
                            eq = (raw == w_st) | (np.isnan(raw) & np.isnan(w_st))
                            if raw.shape != w_st.shape or not np.all(eq):
                                idx = tuple(int(v) for v in np.argwhere(~eq)[0]) if raw.shape == w_st.shape else None
                                flipped = raw.shape == w_st.shape and np.array_equal(raw, w_st[::-1], equal_nan=True)
                                bad = (f"tile {key}: stored pixel {idx} is {raw[idx] if idx else raw.shape!r}, the assembled mosaic has {w_st[idx] if idx else w_st.shape!r} there "
                                       f"({int((~eq).sum()) if idx else '?'} pixels differ{'; rows in the opposite order' if flipped else ''})")
                                break
                if not bad:
                    # ---- against the single-image run of the real code
                    sfound, _l, _o = collect(single_dir, fmt, single["levels"])
                    if single["levels"] != res["levels"] or set(sfound) != set(found):
                        bad = "the set of tiles differs from the one obtained by tiling the assembled mosaic with the same code"
                    else:
                        for key in found:
                            if not np.array_equal(read_raw(found[key], fmt), read_raw(sfound[key], fmt), equal_nan=True):
                                bad = f"tile {key} differs from the tile obtained by tiling the assembled mosaic with the same code"
                                break
                    if not bad:
                        for kk, v in res["astro"].items():
                            sv = single["astro"][kk]
                            if (isinstance(v, float) and not math.isclose(v, sv, rel_tol=1e-12, abs_tol=1e-12)) or (not isinstance(v, float) and v != sv):
                                bad = f"astrometric description differs from that of the assembled mosaic: {kk} = {v!r} vs {sv!r}"
                                break
                    if not bad and study_astro is not None:
                        # ---- and against the description of the assembled mosaic tiled as a plain study (no multi-TAN code involved)
                        for kk, v in res["astro"].items():
                            sv = study_astro[kk]
                            if (isinstance(v, float) and not math.isclose(v, sv, rel_tol=1e-9, abs_tol=1e-9)) or (not isinstance(v, float) and v != sv):
                                bad = f"astrometric description differs from that of the assembled mosaic tiled as a study: {kk} = {v!r} vs {sv!r}"
                                break
                if bad:
                    h.violation(f"mosaic:{fmt}:{par}", f"{desc}, parallel={par}, input order {order}: {bad}", input={**inp, "order": order, "parallel": par}, observed=bad)
                h.case((ci, W, H, tuple(rects), storage, fmt, par, tuple(order)) if k >= 2 else None)
                h.count("inputs", k)
                shutil.rmtree(out_dir, ignore_errors=True)
            shutil.rmtree(cdir, ignore_errors=True)
        # ---- many pieces of ONE tile tiled by two / three workers under the deterministic scheduler (the real `MultiTanProcessor.tile`
        # on simulated multiprocessing, random schedules): the result is the serial one whatever the interleaving of the workers' locked
        # updates.  (The real-process runs above meet such interleavings only by luck.)
        try:
            from . import c10 as _c10
            from .. import simmp as _simmp
            for si in range(24 if h.deep else 8):
                nimg, par_s = rng.choice([(3, 2), (4, 2), (4, 3), (4, 2)])      # (4 pieces of 60 px still fit the single level-0 tile)
                seed_s = rng.randrange(2 ** 31)
                bad_s, sim_s = _c10.caller_scenario(os.path.join(root, f"sim{si}"), nimg, par_s, _simmp.RandomChooser(seed_s, timeout_weight=0.05), rng, fork_copy=True)
                h.case(("sim-one-tile", nimg, par_s, seed_s))
                h.count("runs", f"simulated/{nimg} pieces/par{par_s}")
                if bad_s:
                    h.violation(f"mosaic:sim:{par_s}", f"{nimg} pieces of one tile tiled by MultiTanProcessor.tile(parallel={par_s}) under a simulated schedule (seed {seed_s}): {bad_s}",
                                input={"pieces": nimg, "parallel": par_s, "schedule_seed": seed_s, "choices": list(sim_s.choices)[:400]}, observed=bad_s)
                    break
        except Exception as e:  # noqa
            h.corr_fail("simulated-one-tile", {"error": f"{type(e).__name__}: {e}"})
        try:
            out = lean_driver(lines)
            diff_streams(h, "global-pixelisation", lines, py, out)
        except Exception as e:
            h.corr_fail("global-pixelisation", {"error": str(e)[-800:]})
    finally:
        shutil.rmtree(root, ignore_errors=True)
    return h.finish()


if __name__ == "__main__":
    sys.exit(main())
