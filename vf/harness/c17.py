"""C17 harness: WTML vs files on disk for every workflow that writes index_rel.wtml; reuse histories of tile_fits."""
import glob
import os
import shutil
import sys
import tempfile
import warnings

import numpy as np

from .common import Harness, lean_driver, diff_streams


def parse_wtml(path):
    from wwt_data_formats.folder import Folder
    from wwt_data_formats.place import Place
    f = Folder.from_file(path)
    c = f.children[0]
    imgset = c.foreground_image_set if isinstance(c, Place) else c
    return imgset, (c if isinstance(c, Place) else None)


def expand(url, n, x, y):
    return url.replace("{1}", str(n)).replace("{2}", str(x)).replace("{3}", str(y))


def tiles_on_disk(d, ext):
    out = set()
    for p in glob.glob(os.path.join(d, "**", "*." + ext), recursive=True):
        rel = os.path.relpath(p, d)
        if rel.startswith("thumb"):
            continue
        out.add(rel)
    return out


def check_dir(h, tag, d, scheme_short, lines, py, expect_levels=None, full=True, canvas=None):
    """WTML template expanded over all positions vs directory listing, both ways."""
    wt = os.path.join(d, "index_rel.wtml")
    if not os.path.exists(wt):
        h.violation(f"nowtml:{tag}", f"{tag}: no index_rel.wtml written", input=tag)
        return None
    imgset, place = parse_wtml(wt)
    url, ft, lv = imgset.url, imgset.file_type, imgset.tile_levels
    ext = ft.lstrip(".")
    disk = tiles_on_disk(d, ext)
    if not ft.startswith("."):
        h.violation(f"filetype:{tag}", f"{tag}: FileType {ft!r} is not '.'+extension", input=tag)
    other = [p for e in ("png", "fits", "npy", "jpg") if e != ext for p in tiles_on_disk(d, e)]
    if other:
        h.violation(f"filetype:{tag}", f"{tag}: FileType is {ft} but tiles with another extension exist, e.g. {other[0]}", input=tag)
    exp = {}
    for n in range(lv + 1):
        for x in range(2 ** n):
            for y in range(2 ** n):
                exp[expand(url, n, x, y)] = (n, x, y)
    if len(exp) != sum(4 ** n for n in range(lv + 1)):
        h.violation(f"inj:{tag}", f"{tag}: URL template {url!r} maps two positions to one path", input=tag)
    stray = sorted(disk - set(exp))
    if stray:
        h.violation(f"url:{tag}", f"{tag}: tile file {stray[0]} on disk is not named by the WTML template {url!r} with TileLevels={lv}", input=tag, observed=stray[:5])
    deepest = max((int(v[0]) for v in (exp[p] for p in disk if p in exp)), default=None)
    if deepest is not None and deepest != lv:
        h.violation(f"levels:{tag}", f"{tag}: TileLevels={lv} but the deepest populated layer on disk is {deepest}", input=tag)
    if expect_levels is not None and lv != expect_levels:
        h.violation(f"levels:{tag}", f"{tag}: TileLevels={lv}, expected {expect_levels}", input=tag)
    if full:
        missing = sorted(set(exp) - disk)
        if missing:
            h.violation(f"url:{tag}", f"{tag}: the template names {missing[0]} (position {exp[missing[0]]}) but no such file was written", input=tag, observed=missing[:5])
    # the file the template names for a deepest-level position must hold *that* position's pixels
    if canvas is not None:
        from toasty.pyramid import PyramidIO, Pos
        for x in range(2 ** lv):
            for y in range(2 ** lv):
                rel = expand(url, lv, x, y)
                p = os.path.join(d, rel)
                if not os.path.exists(p):
                    continue
                from toasty.image import ImageLoader
                arr = ImageLoader().load_path(p).asarray()
                if ext == "fits":
                    arr = arr[::-1]
                want = canvas[256 * y:256 * y + 256, 256 * x:256 * x + 256]
                got = arr[..., :want.shape[-1]] if arr.ndim == 3 and want.ndim == 3 else arr
                m = ~np.isnan(want) if want.dtype.kind == "f" else (want.sum(axis=-1) > 0 if want.ndim == 3 else want != 0)
                if got.shape[:2] != (256, 256) or not np.array_equal(np.asarray(got)[m], want[m]):
                    h.violation(f"content:{tag}", f"{tag}: the file {rel} named by the WTML template for position ({lv},{x},{y}) does not hold that position's pixels", input=tag)
                    break
            else:
                continue
            break
    # model correspondence: template and path for a sample of positions
    for p in list(disk)[:6]:
        if p in exp:
            n, x, y = exp[p]
            lines.append(f"path expand {n} {x} {y} {url}")
            py.append(p)
            lines.append(f"path render {scheme_short} {n} {x} {y} {ext}")
            py.append(p)
    lines.append(f"path url {scheme_short} {ext}")
    py.append(url)
    return imgset, place


def desc_of(imgset, place):
    r = lambda v: None if v is None else round(float(v), 9)
    d = {k: getattr(imgset, k) for k in ("url", "file_type", "tile_levels", "name")}
    d["projection"] = str(imgset.projection)
    for k in ("center_x", "center_y", "base_degrees_per_tile", "rotation_deg", "offset_x", "offset_y", "data_min", "data_max"):
        d[k] = r(getattr(imgset, k))
    d["bottoms_up"] = imgset.bottoms_up
    if place is not None:
        d["place"] = (r(place.ra_hr), r(place.dec_deg), r(place.zoom_level))
    return d


def make_fits(path, w, hgt, crval=(10.0, 20.0), scale=0.001):
    from astropy.io import fits
    from astropy.wcs import WCS
    wcs = WCS(naxis=2)
    wcs.wcs.ctype = ["RA---TAN", "DEC--TAN"]
    wcs.wcs.crval = list(crval)
    wcs.wcs.crpix = [w / 2, hgt / 2]
    wcs.wcs.cdelt = [-scale, scale]
    data = (np.arange(w * hgt).reshape(hgt, w) % 97).astype(np.float32) + 1
    fits.PrimaryHDU(data, header=wcs.to_header()).writeto(path, overwrite=True)


def main():
    h = Harness("C17")
    import toasty
    import toasty.par_util
    from toasty import TilingMethod
    from toasty.builder import Builder
    from toasty.image import Image
    from toasty.pyramid import PyramidIO
    from toasty.samplers import plate_carree_sampler
    toasty.par_util.SHOW_INFORMATIONAL_MESSAGES = False
    rng = h.rng
    h.rule = ("workflows: study (Builder.tile_base_as_study+cascade), all-sky TOAST (toast_base+cascade), tile_fits TAN and TOAST, pipeline process_todos with a stub source; "
              "both naming schemes, png/fits/npy; image sizes giving 0-3 levels; histories fresh / repeated / repeated-with-override on one output directory; "
              "non-trivial = every workflow run with >=1 level; distinct by (workflow, scheme, format, size, history)")
    root = tempfile.mkdtemp(prefix="vfc17_")
    lines, py = [], []
    try:
        # ---- decimal rendering vs python str
        for n in [0, 1, 9, 10, 11, 99, 100, 255, 256, 1023, 65535, 10 ** 6] + [rng.randrange(10 ** 9) for _ in range(30)]:
            lines.append(f"path dec {n}")
            py.append(str(n))
        # ---- study + cascade
        k = 0
        for scheme, short in (("L/Y/YX", "LsYsYX"), ("LXY", "LXY")):
            for fmt in ("png", "fits", "npy", "jpg"):
                for (w, hh) in ([(200, 100), (300, 513)] if not h.deep else [(200, 100), (256, 256), (513, 300), (300, 513), (130, 260), (700, 1025)]):   # wide, square and tall (the two axes need different powers of two)
                    k += 1
                    d = os.path.join(root, f"study{k}")
                    pio = PyramidIO(d, scheme=scheme, default_format=fmt)
                    b = Builder(pio)
                    if fmt in ("png", "jpg"):
                        arr = np.random.RandomState(k).randint(1, 255, size=(hh, w, 3)).astype(np.uint8)
                    else:
                        arr = np.random.RandomState(k).rand(hh, w).astype(np.float32) + 1
                    with warnings.catch_warnings():
                        warnings.simplefilter("ignore")
                        b.tile_base_as_study(Image.from_array(arr))
                        b.default_tiled_study_astrometry()
                        b.set_name("s")
                        b.cascade(parallel=1)
                        b.write_index_rel_wtml()
                    p2n = 256
                    while p2n < max(w, hh):
                        p2n *= 2
                    import math
                    tag = f"study/{short}/{fmt}/{w}x{hh}"
                    h.case((tag,))
                    h.count("workflow", "study")
                    gx0, gy0 = (p2n - w) // 2, (p2n - hh) // 2
                    cshape = (p2n, p2n) + arr.shape[2:]
                    canvas = np.zeros(cshape, dtype=arr.dtype) if arr.dtype.kind != "f" else np.full(cshape, np.nan, dtype=arr.dtype)
                    canvas[gy0:gy0 + hh, gx0:gx0 + w] = arr
                    # jpg is lossy: names, extension and levels are checked, pixel content is not
                    check_dir(h, tag, d, short, lines, py, expect_levels=int(math.log2(p2n // 256)), full=False, canvas=None if fmt == "jpg" else canvas)
                    shutil.rmtree(d, ignore_errors=True)
        # ---- all-sky TOAST
        sky = np.random.RandomState(7).randint(1, 255, size=(64, 128, 3)).astype(np.uint8)
        for scheme, short in (("L/Y/YX", "LsYsYX"), ("LXY", "LXY")):
            for depth in (0, 1, 2):
                k += 1
                d = os.path.join(root, f"toast{k}")
                pio = PyramidIO(d, scheme=scheme, default_format="png")
                b = Builder(pio)
                tag = f"allsky/{short}/png/depth{depth}"
                try:
                    b.toast_base(plate_carree_sampler(sky), depth, parallel=1)
                    b.set_name("t")
                    b.cascade(parallel=1)
                    b.write_index_rel_wtml()
                except Exception as e:
                    h.violation(f"crash:allsky:depth{depth}", f"{tag}: the workflow raised {type(e).__name__}: {e}", input=tag)
                    h.case((tag,))
                    continue
                h.case((tag,))
                h.count("workflow", "allsky")
                check_dir(h, tag, d, short, lines, py, expect_levels=depth, full=True)
                shutil.rmtree(d, ignore_errors=True)
        # ---- the command-line workflows: `toasty tile-study` / `toasty tile-allsky`, then `toasty cascade`
        try:
            from toasty import cli
            from PIL import Image as PImage
            import contextlib
            import io
            import math

            def run_cli(args):
                with warnings.catch_warnings():
                    warnings.simplefilter("ignore")
                    with contextlib.redirect_stdout(io.StringIO()), contextlib.redirect_stderr(io.StringIO()):
                        cli.entrypoint(args)
            for (w, hh) in ([(200, 100), (300, 513)] if not h.deep else [(200, 100), (256, 256), (300, 513), (700, 1025)]):
                k += 1
                d = os.path.join(root, f"clistudy{k}")
                arr = np.random.RandomState(k).randint(1, 255, size=(hh, w, 3)).astype(np.uint8)
                src = os.path.join(root, f"clisrc{k}.png")
                PImage.fromarray(arr, "RGB").save(src)
                p2n = 256
                while p2n < max(w, hh):
                    p2n *= 2
                lv = int(math.log2(p2n // 256))
                tag = f"cli-study/LsYsYX/png/{w}x{hh}"
                try:
                    run_cli(["tile-study", "--outdir", d, "--placeholder-thumbnail", src])
                    if lv > 0:
                        run_cli(["cascade", "--start", str(lv), "--parallelism", "1", d])
                except BaseException as e:  # noqa  (argparse exits)
                    h.violation("crash:cli-study", f"{tag}: `toasty tile-study` / `toasty cascade` raised {type(e).__name__}: {e}", input=tag)
                    h.case((tag,))
                    continue
                h.case((tag,))
                h.count("workflow", "cli-study")
                gx0, gy0 = (p2n - w) // 2, (p2n - hh) // 2
                canvas = np.zeros((p2n, p2n, 3), dtype=np.uint8)
                canvas[gy0:gy0 + hh, gx0:gx0 + w] = arr
                check_dir(h, tag, d, "LsYsYX", lines, py, expect_levels=lv, full=False, canvas=canvas)
                shutil.rmtree(d, ignore_errors=True)
            # ---- `toasty tile-wwtl`: a WWT layer file (a file cabinet holding the layer description and the image) tiled as a study;
            # the layer's own image set names the EMBEDDED image's type, the tiles are written in the pyramid's format
            try:
                from wwt_data_formats.filecabinet import FileCabinetWriter
                cid, lid = "0d1e2f3a-1111-4222-8333-944455566677", "a1b2c3d4-5555-4666-8777-888999aaabbb"
                for (w, hh, ext, pilfmt) in ([(300, 513, ".jpg", "JPEG"), (200, 100, ".png", "PNG")] + ([(700, 300, ".jpg", "JPEG")] if h.deep else [])):
                    k += 1
                    d = os.path.join(root, f"cliwwtl{k}")
                    arr = np.random.RandomState(k).randint(1, 255, size=(hh, w, 3)).astype(np.uint8)
                    buf = io.BytesIO()
                    PImage.fromarray(arr, "RGB").save(buf, format=pilfmt)
                    xml = (f"<?xml version='1.0' encoding='UTF-8'?>\n<LayerContainer ID=\"{cid}\"><Layers>"
                           f"<Layer Id=\"{lid}\" Type=\"TerraViewer.ImageSetLayer\" Name=\"layer\" ReferenceFrame=\"Sky\" Color=\"NamedColor:White\" Opacity=\"1\" "
                           f"StartTime=\"1/1/0001 12:00:00 AM\" EndTime=\"12/31/9999 11:59:59 PM\" FadeSpan=\"00:00:00\" FadeType=\"None\" Extension=\"{ext}\" OverrideDefault=\"False\">"
                           f"<ImageSet DataSetType=\"Sky\" BandPass=\"Visible\" Name=\"layer\" Projection=\"SkyImage\" ReferenceFrame=\"\" CenterX=\"120.5\" CenterY=\"-12.5\" "
                           f"OffsetX=\"{w / 2}\" OffsetY=\"{hh / 2}\" Rotation=\"5\" BaseDegreesPerTile=\"0.003\" QuadTreeMap=\"\" Url=\"X:\\\\InternalPath{ext}\" DemUrl=\"\" FileType=\"{ext}\" "
                           f"BaseTileLevel=\"0\" TileLevels=\"0\" WidthFactor=\"1\" MeanRadius=\"0\" BottomsUp=\"False\" Sparse=\"False\" ElevationModel=\"False\" StockSet=\"False\" Generic=\"False\">"
                           f"<ThumbnailUrl /></ImageSet></Layer></Layers></LayerContainer>")
                    fw = FileCabinetWriter()
                    fw.add_file_with_data(cid + ".wwtxml", xml.encode("utf8"))
                    fw.add_file_with_data(cid + "\\" + lid + ext, buf.getvalue())
                    src = os.path.join(root, f"layer{k}.wwtl")
                    with open(src, "wb") as fh_:
                        fw.emit(fh_)
                    p2n = 256
                    while p2n < max(w, hh):
                        p2n *= 2
                    lv = int(math.log2(p2n // 256))
                    tag = f"cli-wwtl/LsYsYX/png/{w}x{hh}/embedded{ext}"
                    try:
                        run_cli(["tile-wwtl", "--outdir", d, "--placeholder-thumbnail", src])
                        if lv > 0:
                            run_cli(["cascade", "--start", str(lv), "--parallelism", "1", d])
                    except BaseException as e:  # noqa
                        h.violation("crash:cli-wwtl", f"{tag}: `toasty tile-wwtl` / `toasty cascade` raised {type(e).__name__}: {e}", input=tag)
                        h.case((tag,))
                        continue
                    h.case((tag,))
                    h.count("workflow", "cli-wwtl")
                    check_dir(h, tag, d, "LsYsYX", lines, py, expect_levels=lv, full=False)
                    shutil.rmtree(d, ignore_errors=True)
            except ImportError:
                h.count("workflow", "cli-wwtl-unavailable")
            skysrc = os.path.join(root, "clisky.png")
            PImage.fromarray(sky, "RGB").save(skysrc)
            for depth in ((0, 1, 2) if h.deep else (1, 2)):
                k += 1
                d = os.path.join(root, f"clisky{k}")
                tag = f"cli-allsky/LsYsYX/png/depth{depth}"
                try:
                    run_cli(["tile-allsky", "--outdir", d, "--placeholder-thumbnail", "--projection", "plate-carree", "--parallelism", "1", skysrc, str(depth)])
                    if depth > 0:
                        run_cli(["cascade", "--start", str(depth), "--parallelism", "1", d])
                except BaseException as e:  # noqa
                    h.violation("crash:cli-allsky", f"{tag}: `toasty tile-allsky` / `toasty cascade` raised {type(e).__name__}: {e}", input=tag)
                    h.case((tag,))
                    continue
                h.case((tag,))
                h.count("workflow", "cli-allsky")
                check_dir(h, tag, d, "LsYsYX", lines, py, expect_levels=depth, full=True)
                shutil.rmtree(d, ignore_errors=True)
        except Exception as e:
            import traceback
            h.violation("cli:crash", f"the command-line workflows raised {type(e).__name__}: {e}", input="cli", observed=traceback.format_exc()[-600:])
        # ---- tile_fits: TAN and TOAST, with reuse histories
        sizes = [(600, 600), (200, 300)] + ([(1100, 700), (300, 200)] if h.deep else [])
        for (w, hh) in sizes:
            for method, mname in ((TilingMethod.TAN, "tan"), (TilingMethod.TOAST, "toast")):
                k += 1
                base = os.path.join(root, f"fits{k}")
                os.makedirs(base)
                fp = os.path.join(base, "img.fits")
                make_fits(fp, w, hh, scale=0.001 if mname == "tan" else 0.05)
                out = os.path.join(base, "out")
                # fresh, repeated (progress on), repeated (progress off), override, repeated (off), repeated (on)
                hist = [False, False, False, True, False, False]
                progress = [False, True, False, True, False, True]
                prev = None
                for step, override in enumerate(hist):
                    tag = f"tile_fits/{mname}/{w}x{hh}/step{step}{'-override' if override else ''}"
                    try:
                        with warnings.catch_warnings():
                            warnings.simplefilter("ignore")
                            # the progress flag (as `toasty view` and notebooks pass it) on every other step; it only prints
                            import contextlib
                            import io as _io
                            with contextlib.redirect_stdout(_io.StringIO()), contextlib.redirect_stderr(_io.StringIO()):
                                odir, bld = toasty.tile_fits(fp, out_dir=out, tiling_method=method, override=override, parallel=1, cli_progress=progress[step])
                    except Exception as e:
                        h.violation(f"crash:tile_fits:{mname}", f"{tag}: tile_fits raised {type(e).__name__}: {e}", input=tag)
                        h.case((tag,))
                        break
                    h.case((tag,))
                    h.count("workflow", "tile_fits-" + mname)
                    h.count("history", ["fresh", "repeated", "repeated", "override", "repeated-after-override", "repeated-after-override"][step] + ("/progress" if progress[step] else ""))
                    res = check_dir(h, tag, odir, "LsYsYX", lines, py, full=False)
                    if res is None:
                        continue
                    imgset, place = res
                    on_disk = desc_of(imgset, place)
                    returned = desc_of(bld.imgset, bld.place if place is not None else None)
                    if on_disk != returned:
                        diff = {kk: (returned.get(kk), on_disk.get(kk)) for kk in on_disk if on_disk.get(kk) != returned.get(kk)}
                        hk = ["fresh", "reuse", "reuse", "override", "reuse", "reuse"][step]
                        h.violation(f"returned:{hk}", f"{tag}: the description returned by tile_fits differs from index_rel.wtml: (returned, on disk) = {diff}",
                                    input={"workflow": "tile_fits", "method": mname, "history": hist[: step + 1], "cli_progress": progress[step]}, observed=diff)
                    if prev is not None and not override and prev != on_disk:
                        h.violation("reuse:changed", f"{tag}: reusing the directory changed index_rel.wtml", input=tag)
                    prev = on_disk
                shutil.rmtree(base, ignore_errors=True)
        # ---- tile_fits, TOAST, SEVERAL images of different pixel scales (in either order), no explicit start level: one pyramid, one
        # TileLevels — the depth of the deepest populated layer
        for order in ((0, 1), (1, 0)):
            k += 1
            base = os.path.join(root, f"multi{k}")
            os.makedirs(base)
            specs = [(os.path.join(base, "fine.fits"), 48, 40, (30.0, 10.0), 1.0 / 60), (os.path.join(base, "coarse.fits"), 40, 48, (200.0, -35.0), 4.0 / 60)]
            for (fp, w, hh, crval, sc) in specs:
                make_fits(fp, w, hh, crval=crval, scale=sc)
            paths = [specs[i][0] for i in order]
            tag = f"tile_fits/toast/2 images, {'fine' if order[0] == 0 else 'coarse'} first"
            try:
                with warnings.catch_warnings():
                    warnings.simplefilter("ignore")
                    odir, bld = toasty.tile_fits(paths, out_dir=os.path.join(base, "out"), tiling_method=TilingMethod.TOAST, parallel=1)
            except Exception as e:
                h.violation("crash:tile_fits:multi", f"{tag}: tile_fits raised {type(e).__name__}: {e}", input=tag)
                h.case((tag,))
                continue
            h.case((tag,))
            h.count("workflow", "tile_fits-toast-multi")
            res = check_dir(h, tag, odir, "LsYsYX", lines, py, full=False)
            if res is not None:
                imgset, place = res
                on_disk = desc_of(imgset, place)
                returned = desc_of(bld.imgset, bld.place if place is not None else None)
                if on_disk != returned:
                    diff = {kk: (returned.get(kk), on_disk.get(kk)) for kk in on_disk if on_disk.get(kk) != returned.get(kk)}
                    h.violation("returned:multi", f"{tag}: the description returned by tile_fits differs from index_rel.wtml: (returned, on disk) = {diff}", input=tag, observed=diff)
            shutil.rmtree(base, ignore_errors=True)
        # ---- pipeline process_todos with a stub image source
        try:
            from toasty import pipeline as PL

            class StubSource(PL.ImageSource):
                @classmethod
                def get_config_key(cls):
                    return "stub"

                @classmethod
                def deserialize(cls, data):
                    return cls()

                def query_candidates(self):
                    return iter(())

                def fetch_candidate(self, unique_id, cand_data_stream, cachedir):
                    pass

                def process(self, unique_id, cand_data_stream, cachedir, builder):
                    arr = STUB_ARR
                    builder.tile_base_as_study(Image.from_array(arr))
                    builder.default_tiled_study_astrometry()
                    builder.set_name(unique_id)
                    builder.cascade(parallel=1)

            PL.IMAGE_SOURCE_CLASS_LOADERS["stub"] = lambda: StubSource
            global STUB_ARR
            STUB_ARR = np.random.RandomState(3).randint(1, 255, size=(300, 520, 3)).astype(np.uint8)
            pcanvas = np.zeros((1024, 1024, 3), dtype=np.uint8)
            pcanvas[362:662, 252:772] = STUB_ARR
            work = os.path.join(root, "pipe")
            store = os.path.join(root, "pstore")
            os.makedirs(os.path.join(work, "cache_todo", "imgA"))
            os.makedirs(os.path.join(work, "candidates"))
            os.makedirs(store)
            open(os.path.join(work, "candidates", "imgA"), "wb").close()
            with open(os.path.join(work, "toasty-store-config.yaml"), "wt") as f:
                f.write("_type: local\npath: %s\n" % store)
            with open(os.path.join(work, "toasty-pipeline-config.yaml"), "wt") as f:
                f.write("source_type: stub\nstub: {}\n")
            mgr = PL.PipelineManager(work)
            mgr.process_todos()
            tag = "pipeline/LXY/png/520x300"
            h.case((tag,))
            h.count("workflow", "pipeline")
            check_dir(h, tag, os.path.join(work, "processed", "imgA"), "LXY", lines, py, expect_levels=2, full=False, canvas=pcanvas)
        except Exception as e:
            import traceback
            h.violation("pipeline:crash", f"pipeline process_todos with a stub source raised {type(e).__name__}: {e}", input="pipeline", observed=traceback.format_exc()[-600:])
        h.sample({"requests": lines[45:48], "impl": py[45:48]})
        out = lean_driver(lines)
        diff_streams(h, "paths-vs-model", lines, py, out)
    except Exception as e:
        import traceback
        h.corr_fail("paths-vs-model", {"error": traceback.format_exc()[-1500:]})
    finally:
        shutil.rmtree(root, ignore_errors=True)
    return h.finish()


if __name__ == "__main__":
    sys.exit(main())
