"""C16 harness: parity flips on real Image / ImageDescription objects with exactly representable WCS."""
import sys
import warnings
from fractions import Fraction

import numpy as np

from .common import Harness, lean_driver, diff_streams


def fr(x):
    f = Fraction(float(x))
    return str(f.numerator) if f.denominator == 1 else f"{f.numerator}/{f.denominator}"


def make_wcs(cdelt, pc, crpix, crval=(30.0, 40.0)):
    from astropy.wcs import WCS
    w = WCS(naxis=2)
    w.wcs.ctype = ["RA---TAN", "DEC--TAN"]
    w.wcs.crval = list(crval)
    w.wcs.crpix = list(crpix)
    w.wcs.cdelt = list(cdelt)
    w.wcs.pc = [[pc[0], pc[1]], [pc[2], pc[3]]]
    w.wcs.set()
    return w


def lin_of(wcs):
    """(cd11, cd12, cd21, cd22, crpix1, crpix2) of a WCS as the header says"""
    h = wcs.to_header()
    c1, c2 = h["CDELT1"], h["CDELT2"]
    return (c1 * h.get("PC1_1", 1.0), c1 * h.get("PC1_2", 0.0), c2 * h.get("PC2_1", 0.0), c2 * h.get("PC2_2", 1.0), h["CRPIX1"], h["CRPIX2"])


def hdr_params(wcs):
    h = wcs.to_header()
    return (h["CDELT1"], h["CDELT2"], h.get("PC1_1", 1.0), h.get("PC1_2", 0.0), h.get("PC2_1", 0.0), h.get("PC2_2", 1.0), h["CRPIX1"], h["CRPIX2"])


def gen_case(rng):
    k = lambda: rng.randint(-16, 16) / 16.0
    style = rng.choice(["rot", "rot", "skew", "axis", "steep"])
    if style == "axis":
        pc = (1.0, 0.0, 0.0, 1.0)
    elif style == "steep":      # rotated by more than 45 degrees: |off-diagonal| > |diagonal|
        a = rng.randint(1, 6) / 16.0
        b = rng.randint(9, 16) / 16.0 * rng.choice([-1, 1])
        pc = (a, -b, b, a)
    elif style == "rot":
        a, b = k(), k()
        pc = (a, -b, b, a)
    else:
        pc = (k(), k(), k(), k())
    cdelt = (rng.choice([-1, 1]) * 2.0 ** -rng.randint(4, 8), rng.choice([-1, 1]) * 2.0 ** -rng.randint(4, 8))
    det = (cdelt[0] * pc[0]) * (cdelt[1] * pc[3]) - (cdelt[0] * pc[1]) * (cdelt[1] * pc[2])
    if det == 0:
        return gen_case(rng)
    hgt, wid = rng.choice([1, 2, 3, 7, 16, 33]), rng.choice([1, 2, 5, 8, 21])
    crpix = (rng.randint(-40, 60) / 2.0, rng.randint(-40, 60) / 2.0)
    return {"style": style, "pc": pc, "cdelt": cdelt, "crpix": crpix, "h": hgt, "w": wid, "det": det}


def main():
    h = Harness("C16")
    from toasty.image import Image, ImageDescription, ImageMode
    from PIL import Image as PILImage
    rng = h.rng
    h.rule = ("linear TAN WCS with dyadic-rational PC (any rotation incl. >45deg, skew), CDELT of either sign, CRPIX inside/outside, heights 1..33; "
              "objects: array-backed Image, PIL-backed Image (array touched before the flip or not), ImageDescription; operations: flip, flip twice, "
              "ensure_negative_parity twice; non-trivial = rotated/skewed or height>1; distinct by parameters")
    lines, py = [], []
    n = 500 if h.deep else 120
    for ci in range(n):
        c = gen_case(rng)
        wcs = make_wcs(c["cdelt"], c["pc"], c["crpix"])
        H, W = c["h"], c["w"]
        kind = rng.choice(["array", "array", "pil", "pil-touched", "desc"])
        data = (np.arange(H * W).reshape(H, W) % 251).astype(np.uint8)
        rgb = np.stack([data, data, data], axis=2)
        if kind == "array":
            obj = Image.from_array(data.astype(np.float32), wcs=wcs.deepcopy())
            before_rows = data.astype(np.float32)
        elif kind in ("pil", "pil-touched"):
            obj = Image.from_pil(PILImage.fromarray(rgb), wcs=wcs.deepcopy())
            before_rows = rgb
            if kind == "pil-touched":
                obj.asarray()
                _ = obj.dtype
        else:
            obj = ImageDescription(mode=ImageMode.F32, shape=(H, W), wcs=wcs.deepcopy())
            before_rows = None
        h.case((kind, c["style"], c["pc"], c["cdelt"], c["crpix"], H) if (c["style"] != "axis" or H > 1) else None)
        h.count("object", kind)
        h.count("style", c["style"])
        h.count("start_parity", "+" if c["det"] < 0 else "-")
        tag = f"{kind} {c['style']} pc={c['pc']} cdelt={c['cdelt']} crpix={c['crpix']} {W}x{H}"
        try:
            with warnings.catch_warnings():
                warnings.simplefilter("ignore")
                p0 = obj.get_parity_sign()
                par = hdr_params(obj.wcs)
                lines.append("parity sign " + " ".join(fr(v) for v in par[:6]))
                py.append(str(p0))
                want_sign = 1 if c["det"] < 0 else -1
                if p0 != want_sign:
                    h.violation(f"sign:{c['style']}", f"{tag}: parity sign {p0}, determinant {c['det']} says {want_sign}", input=c)
                px = np.array([[0, 0], [W - 1, 0], [0, H - 1], [W - 1, H - 1], [W / 2.0, H / 3.0]], dtype=float)
                world0 = obj.wcs.all_pix2world(px, 0)
                obj.flip_parity()
                lin1 = lin_of(obj.wcs)
                lines.append("parity flip " + " ".join(fr(v) for v in par) + f" {H}")
                py.append(" ".join(fr(v) for v in lin1))
                p1 = obj.get_parity_sign()
                px2 = px.copy()
                px2[:, 1] = H - 1 - px[:, 1]
                world1 = obj.wcs.all_pix2world(px2, 0)
                d = np.abs(world1 - world0)
                d[:, 0] = np.minimum(d[:, 0], 360 - d[:, 0])
                bad = None
                if p1 != -p0:
                    bad = f"parity sign after flip is {p1}, before {p0}"
                elif d.max() > 1e-9:
                    bad = f"pixel (x,y) and (x,H-1-y) differ on the sky by up to {d.max():.3g} deg after the flip"
                elif before_rows is not None and not np.array_equal(obj.asarray(), before_rows[::-1]):
                    bad = "rows are not reversed after the flip (asarray() returns %s)" % ("the original order" if np.array_equal(obj.asarray(), before_rows) else "something else")
                if bad is None:
                    obj.flip_parity()
                    lin2 = lin_of(obj.wcs)
                    want = (c["cdelt"][0] * c["pc"][0], c["cdelt"][0] * c["pc"][1], c["cdelt"][1] * c["pc"][2], c["cdelt"][1] * c["pc"][3], c["crpix"][0], c["crpix"][1])
                    if tuple(lin2) != tuple(want) or obj.get_parity_sign() != p0:
                        bad = f"flipping twice does not restore the WCS: {lin2} vs {want}"
                    elif before_rows is not None and not np.array_equal(obj.asarray(), before_rows):
                        bad = "flipping twice does not restore the rows"
                if bad is None:
                    obj.ensure_negative_parity()
                    s1, l1 = obj.get_parity_sign(), lin_of(obj.wcs)
                    obj.ensure_negative_parity()
                    s2, l2 = obj.get_parity_sign(), lin_of(obj.wcs)
                    if s1 != -1 or s2 != -1 or l1 != l2:
                        bad = f"ensure_negative_parity: signs {s1},{s2}; idempotent={l1 == l2}"
                    elif before_rows is not None:
                        exp = before_rows[::-1] if p0 == 1 else before_rows
                        if not np.array_equal(obj.asarray(), exp):
                            bad = "ensure_negative_parity left the rows inconsistent with its WCS"
                if bad:
                    h.violation(f"flip:{kind}:{c['style']}", f"{tag}: {bad}", input={**c, "object": kind}, observed=bad)
        except Exception as e:
            h.violation(f"crash:{kind}", f"{tag}: raised {type(e).__name__}: {e}", input={**c, "object": kind})
        if ci < 3:
            h.sample({"case": tag})
    # ---- histories: random sequences of flip_parity / ensure_negative_parity / get_parity_sign on ONE object; after every step the
    # object's own rows (through EVERY way of reading them: the array, and for PIL-backed images the PIL object and a saved PNG)
    # and its WCS must agree with where the original pixels are on the sky, and `ensure` must leave parity -1
    for si in range(40 if h.deep else 16):
        c = gen_case(rng)
        H, W = c["h"], c["w"]
        kind = ["array", "pil", "pil-touched", "desc"][si % 4]
        wcs0 = make_wcs(c["cdelt"], c["pc"], c["crpix"])
        data = (np.arange(H * W).reshape(H, W) % 251).astype(np.uint8)
        rgb = np.stack([data, (data * 3) % 251, (data * 7) % 251], axis=2)
        try:
            with warnings.catch_warnings():
                warnings.simplefilter("ignore")
                if kind == "array":
                    obj, rows0 = Image.from_array(data.astype(np.float32), wcs=wcs0.deepcopy()), data.astype(np.float32)
                elif kind == "desc":
                    obj, rows0 = ImageDescription(mode=ImageMode.F32, shape=(H, W), wcs=wcs0.deepcopy()), None
                else:
                    obj, rows0 = Image.from_pil(PILImage.fromarray(rgb), wcs=wcs0.deepcopy()), rgb
                    if kind == "pil-touched":
                        obj.asarray()
                px = np.array([[0, 0], [W - 1, 0], [0, H - 1], [W - 1, H - 1], [W / 2.0, H / 3.0]], dtype=float)
                world0 = wcs0.all_pix2world(px, 0)
                nflip = 0
                ops = [rng.choice(["flip", "ensure", "ensure", "sign"]) for _ in range(rng.randint(2, 6))]
                if si % 5 == 0:
                    ops = ["ensure", "flip", "ensure"]
                bad = None
                for oi, op in enumerate(ops):
                    sign_before = obj.get_parity_sign()
                    if op == "flip":
                        obj.flip_parity()
                        nflip += 1
                    elif op == "ensure":
                        obj.ensure_negative_parity()
                        if sign_before == 1:
                            nflip += 1
                        if obj.get_parity_sign() != -1:
                            bad = f"after step {oi} (ensure_negative_parity) the parity sign is {obj.get_parity_sign()}"
                            break
                    flipped = nflip % 2 == 1
                    px2 = px.copy()
                    if flipped:
                        px2[:, 1] = H - 1 - px[:, 1]
                    dd = np.abs(obj.wcs.all_pix2world(px2, 0) - world0)
                    dd[:, 0] = np.minimum(dd[:, 0], 360 - dd[:, 0])
                    if dd.max() > 1e-9:
                        bad = f"after step {oi} ({op}) the WCS puts the original pixels up to {dd.max():.3g} deg away from where they were ({nflip} flips so far)"
                        break
                    if rows0 is not None:
                        want_rows = rows0[::-1] if flipped else rows0
                        views = [("asarray()", np.asarray(obj.asarray()))]
                        if kind.startswith("pil"):
                            views.append(("aspil()", np.asarray(obj.aspil())))
                        for vname, v in views:
                            if not np.array_equal(v, want_rows):
                                bad = (f"after step {oi} ({op}; {nflip} flips so far) {vname} returns the rows in the "
                                       f"{'original' if np.array_equal(v, rows0) else 'reversed' if np.array_equal(v, rows0[::-1]) else 'wrong'} order, the WCS says they are {'reversed' if flipped else 'original'}")
                                break
                        if bad:
                            break
                h.case(("history", kind, tuple(ops), c["style"], c["pc"], c["cdelt"], H))
                h.count("object", "history-" + kind)
                if bad:
                    h.violation(f"history:{kind}", f"{kind} object {W}x{H}, {c['style']} pc={c['pc']} cdelt={c['cdelt']} crpix={c['crpix']}, operations {ops}: {bad}", input={**c, "object": kind, "operations": ops}, observed=bad)
        except Exception as e:
            h.violation(f"crash:history:{kind}", f"{kind} object, operations: raised {type(e).__name__}: {e}", input={**c, "object": kind})
    # ---- several objects built on ONE WCS object (two bands of an exposure; an image and its data-less description): each of them
    # is made negative-parity; for each, rows and WCS must agree afterwards, whatever was done to the others before
    for si in range(8 if h.deep else 4):
        c = gen_case(rng)
        if c["det"] >= 0:          # start from positive parity (sign +1), so that a flip is due
            c = dict(c, cdelt=(-c["cdelt"][0], c["cdelt"][1]), det=-c["det"]) if c["det"] != 0 else c
        H, W = c["h"], c["w"]
        shared = make_wcs(c["cdelt"], c["pc"], c["crpix"])
        px = np.array([[0, 0], [W - 1, 0], [0, H - 1], [W - 1, H - 1], [W / 2.0, H / 3.0]], dtype=float)
        tag = f"shared WCS object, {c['style']} pc={c['pc']} cdelt={c['cdelt']} crpix={c['crpix']} {W}x{H}"
        try:
            with warnings.catch_warnings():
                warnings.simplefilter("ignore")
                world0 = shared.deepcopy().all_pix2world(px, 0)
                p_start = Image.from_array(np.zeros((H, W), dtype=np.float32), wcs=shared.deepcopy()).get_parity_sign()
                datas = [((np.arange(H * W).reshape(H, W) * (b + 1)) % 251).astype(np.float32) for b in range(2)]
                objs = [Image.from_array(datas[0].copy(), wcs=shared), ImageDescription(mode=ImageMode.F32, shape=(H, W), wcs=shared) if si % 2 else None,
                        Image.from_array(datas[1].copy(), wcs=shared)]
                bad = None
                for oi, o in enumerate(objs):
                    if o is None:
                        continue
                    o.ensure_negative_parity()
                    if o.get_parity_sign() != -1:
                        bad = f"object #{oi} has parity sign {o.get_parity_sign()} after ensure_negative_parity"
                        break
                    if isinstance(o, Image):
                        rows = o.asarray()
                        src = datas[0] if oi == 0 else datas[1]
                        # the object started with parity `p_start`: a flip (rows reversed, WCS reflected) is due iff it was +1
                        flipped = p_start == 1
                        if not np.array_equal(rows, src[::-1] if flipped else src):
                            bad = (f"object #{oi} (the {'first' if oi == 0 else 'second'} image on the shared WCS object; start parity {p_start:+d}): its rows are "
                                   f"{'not reversed although a flip was due' if flipped else 'changed although no flip was due'}")
                            break
                        px2 = px.copy()
                        if flipped:
                            px2[:, 1] = H - 1 - px[:, 1]
                        world1 = o.wcs.all_pix2world(px2, 0)
                        dd = np.abs(world1 - world0)
                        dd[:, 0] = np.minimum(dd[:, 0], 360 - dd[:, 0])
                        if dd.max() > 1e-9:
                            bad = (f"object #{oi} (the {'first' if oi == 0 else 'second'} image on the shared WCS object; start parity {p_start:+d}): after ensure_negative_parity its rows are "
                                   f"{'reversed' if flipped else 'unchanged'} but its WCS puts the pixels up to {dd.max():.3g} deg away from where they were")
                            break
                h.case(("shared-wcs", c["style"], c["pc"], c["cdelt"], c["crpix"], H, si % 2))
                h.count("object", "shared-wcs")
                if bad:
                    h.violation("flip:shared-wcs", f"{tag}: {bad}", input={**c, "objects": "image, " + ("description, " if si % 2 else "") + "image on one WCS object"}, observed=bad)
        except Exception as e:
            h.violation("crash:shared-wcs", f"{tag}: raised {type(e).__name__}: {e}", input=c)
    try:
        out = lean_driver(lines)
        diff_streams(h, "header-vs-model", lines, py, out)
    except Exception as e:
        h.corr_fail("header-vs-model", {"error": str(e)[-800:]})
    return h.finish()


if __name__ == "__main__":
    sys.exit(main())
