"""C12 harness: point lookup.

(a) level-1 selection of the real `toast_tile_for_point(1, …)` against the Lean model on exact rational
    longitudes (quarter-turn boundaries through the module's own constants, interior points, whole extra turns);
    the child-choice loop under scripted scores against `Toast.pick`;
(b) the property on floats: the tile returned contains the point (independent half-space test, tolerance for
    points on shared edges), answers for increasing depths are nested, whole turns do not matter, both
    coordinate systems, special points (poles, equator, meridians, tile corners and edge midpoints);
(c) the fitted pixel position is within 2 pixels of the nearest pixel centre (points at least 1° from the poles),
    including points next to tile edges and corners."""
import math
import os
import sys
from fractions import Fraction

import numpy as np

from .common import Harness, lean_driver, diff_streams
from .c04 import Patched, xyz, angdist, sym_mid, tile_str


def inside_score(t, p):
    """smallest signed distance-like value of p to the four edge planes (>= 0: inside); orientation from the centre"""
    c = [xyz(q) for q in t.corners]
    v = xyz(p)
    ce = c[0] + c[1] + c[2] + c[3]
    worst = 1.0
    for a, b in ((c[0], c[1]), (c[1], c[2]), (c[2], c[3]), (c[3], c[0])):
        nrm = np.cross(a, b)
        ln = np.linalg.norm(nrm)
        if ln < 1e-300:
            continue
        s = 1.0 if np.dot(nrm, ce) >= 0 else -1.0
        worst = min(worst, s * float(np.dot(nrm, v)) / ln)
    return worst


def angdist_pt(a, b):
    """angular distance between two (lon, lat) points"""
    va = (math.cos(a[1]) * math.cos(a[0]), math.cos(a[1]) * math.sin(a[0]), math.sin(a[1]))
    vb = (math.cos(b[1]) * math.cos(b[0]), math.cos(b[1]) * math.sin(b[0]), math.sin(b[1]))
    chord = math.sqrt(sum((x - y) ** 2 for x, y in zip(va, vb)))
    return 2 * math.asin(min(1.0, chord / 2))


def main():
    h = Harness("C12")
    rng = h.rng
    from toasty import toast
    from toasty.pyramid import Pos
    CS = toast.ToastCoordinateSystem
    systems = [("a", CS.ASTRONOMICAL), ("p", CS.PLANETARY)]
    TWOPI = 2 * math.pi
    h.rule = ("level-1 selection on exact quarter-turn boundaries (astronomical), interior rationals and +-1..3 whole turns, both systems, against the Lean model; scripted-score descents against the "
              "model's choice rule; float lookups at depths 0-12 of random points, poles, equator, meridian seam, corners / edge midpoints / centres of random tiles (both systems): containment, "
              "nesting, 2π-periodicity; pixel position within 2 px of the nearest centre for |lat| < 89°, incl. points beside tile edges and corners; non-trivial = depth >= 2 or boundary point; "
              "distinct by (system, depth, point)")
    lines, py = [], []
    # ------------------------------------------------------------------ (a) level 1 vs the model
    consts = {Fraction(0): 0.0, Fraction(1, 4): toast.HALFPI, Fraction(1, 2): float(np.pi), Fraction(3, 4): toast.THREEHALFPI}
    for q, lon in consts.items():
        t = toast.toast_tile_for_point(1, 0.3, lon, coordsys=CS.ASTRONOMICAL)
        lines.append(f"toast level1 a {q.numerator}/{q.denominator}")
        py.append(f"({t.pos.x},{t.pos.y})")
        h.case(("l1-boundary", str(q)))
    for _ in range(200 if h.deep else 60):
        den = rng.choice([3, 5, 7, 16, 48, 100])
        num = rng.randrange(den)
        q = Fraction(num, den)
        if (q * 4).denominator == 1:
            continue
        k = rng.choice([0, 0, 1, -1, 2, -3])
        nm, cs = rng.choice(systems)
        t = toast.toast_tile_for_point(1, rng.uniform(-1.5, 1.5), float(q) * TWOPI + k * TWOPI, coordsys=cs)
        qq = q + k
        lines.append(f"toast level1 {nm} {qq.numerator}/{qq.denominator}")
        py.append(f"({t.pos.x},{t.pos.y})")
        h.case(("l1", nm, str(qq)))
        h.count("level1", nm)
    # scripted scores
    for _ in range(120 if h.deep else 40):
        nm, cs = rng.choice(systems)
        depth = rng.randint(2, 6)
        script = {}
        for lv in range(2, depth + 1):
            style = rng.choice(["zero", "neg", "tie", "multi-zero"])
            if style == "zero":
                sc = [-rng.randint(1, 9) for _ in range(4)]
                sc[rng.randrange(4)] = 0
            elif style == "multi-zero":
                sc = [rng.choice([0, -1, -2]) for _ in range(4)]
            elif style == "tie":
                v = -rng.randint(1, 5)
                sc = [rng.choice([v, v - 1]) for _ in range(4)]
            else:
                sc = [-rng.randint(1, 9) for _ in range(4)]
            script[lv] = sc
        real_score = toast._toast_tile_containment_score

        def scripted(tile, lat, lon, script=script, real=real_score):
            if tile.pos.n <= 1:
                return real(tile, lat, lon)
            return float(script[tile.pos.n][(tile.pos.y % 2) * 2 + tile.pos.x % 2])
        with Patched(toast, mid=sym_mid, _toast_tile_containment_score=scripted):
            t = toast.toast_tile_for_point(depth, 0.1, rng.uniform(0, TWOPI), coordsys=cs)
        sx, sy = t.pos.x >> (t.pos.n - 1), t.pos.y >> (t.pos.n - 1)
        lines.append(f"toast lookup {nm} {sy * 2 + sx} " + " ".join(" ".join(str(v) for v in script[lv]) for lv in range(2, depth + 1)))
        py.append(tile_str(t))
        h.case(("scripted", nm, tuple(tuple(script[lv]) for lv in range(2, depth + 1))))
        h.count("scripted", depth)
    try:
        out = lean_driver(lines)
        diff_streams(h, "lookup-logic", lines, py, out)
    except Exception as e:
        h.corr_fail("lookup-logic", {"error": str(e)[-800:]})

    # ------------------------------------------------------------------ (b) containment, nesting, periodicity
    def points():
        pts = []
        for _ in range(150 if h.deep else 40):
            pts.append(("random", math.asin(rng.uniform(-1, 1)), rng.uniform(0, TWOPI)))
        for lat in (0.0, math.pi / 2, -math.pi / 2, math.pi / 4, -math.pi / 4, math.atan(1 / math.sqrt(2)), 1e-9, -1e-9):
            for lon in (0.0, toast.HALFPI, float(np.pi), toast.THREEHALFPI, TWOPI, math.pi / 4, 3 * math.pi / 4, 5 * math.pi / 4, 7 * math.pi / 4, 1e-12, TWOPI - 1e-12):
                pts.append(("special", lat, lon))
        for _ in range(60 if h.deep else 16):
            nm, cs = rng.choice(systems)
            n = rng.randint(1, 7)
            t = toast.create_single_tile(Pos(n, rng.randrange(2 ** n), rng.randrange(2 ** n)), coordsys=cs)
            c = t.corners
            cand = [c[rng.randrange(4)], toast.mid(c[0], c[1]), toast.mid(c[1], c[2]), toast.mid(c[3], c[1]) if t.increasing else toast.mid(c[0], c[2])]
            p = cand[rng.randrange(len(cand))]
            pts.append(("tile-feature", float(p[1]), float(p[0]) % TWOPI))
        return pts
    depths = [0, 1, 2, 3, 5, 8, 12, 16, 19, 22] if h.deep else [0, 1, 2, 4, 9, 14, 18, 22]
    TOL = 1e-9
    for kind, lat, lon in points():
        for nm, cs in systems:
            prev = None
            bad = None
            for d in range(0, max(depths) + 1):
                try:
                    t = toast.toast_tile_for_point(d, lat, lon, coordsys=cs)
                except Exception as e:  # noqa
                    bad = f"depth {d}: raised {type(e).__name__}: {e}"
                    break
                pos = (t.pos.n, t.pos.x, t.pos.y)
                if pos[0] != d or not (0 <= pos[1] < 2 ** d and 0 <= pos[2] < 2 ** d):
                    bad = f"depth {d}: returned position {pos}"
                    break
                if prev is not None and (pos[1] >> 1, pos[2] >> 1) != (prev[1], prev[2]):
                    bad = f"the tile at depth {d} {pos} is not inside the tile at depth {d - 1} {prev}"
                    break
                prev = pos
                if d >= 1 and d in depths:
                    # the oracle's own rounding grows as the tile shrinks (normal of two corners ~width apart): allow for it
                    TOL = 1e-9 + 2e-15 / (math.pi / 2 / 2 ** d)
                    s = inside_score(t, (lon, lat))
                    if s < -TOL:
                        bad = f"depth {d}: the returned tile {pos} does not contain the point (it is {-s:.3g} rad outside one of its edges)"
                        break
                    k = rng.choice([1, -1, 2, -3])
                    t2 = toast.toast_tile_for_point(d, lat, lon + k * TWOPI, coordsys=cs)
                    if (t2.pos.n, t2.pos.x, t2.pos.y) != pos and inside_score(t2, (lon, lat)) < -TOL:
                        bad = f"depth {d}: longitude {lon!r} gives {pos}, longitude + {k}·2π gives {tuple(t2.pos)}, which does not contain the point"
                        break
            if bad:
                h.violation(f"lookup:{kind}", f"{nm} system, point (lat {lat!r}, lon {lon!r}): {bad}", input={"lat": lat, "lon": lon, "system": nm}, observed=bad)
            h.case(("lookup", nm, round(lat, 12), round(lon, 12)))
            h.count("points", kind)

    # ------------------------------------------------------------------ (c) pixel positions
    def pixel_points():
        pts = []
        for _ in range(40 if h.deep else 10):
            lat = math.asin(rng.uniform(-0.9998, 0.9998))
            if abs(lat) < math.radians(89):
                pts.append(("random", lat, rng.uniform(0, TWOPI)))
        for _ in range(60 if h.deep else 16):
            nm, cs = rng.choice(systems)
            n = rng.randint(1, 8)
            t = toast.create_single_tile(Pos(n, rng.randrange(2 ** n), rng.randrange(2 ** n)), coordsys=cs)
            lons, lats = toast.toast_tile_get_coords(t)
            edge = [0, 1, 2, 3, 252, 253, 254, 255]
            i = rng.choice(edge) if rng.random() < 0.7 else rng.randrange(256)
            j = rng.choice(edge) if rng.random() < 0.7 else rng.randrange(256)
            lat, lon = float(lats[i, j]), float(lons[i, j])
            # jitter by a fraction of a pixel towards a neighbour
            i2, j2 = min(255, max(0, i + rng.choice([-1, 0, 1]))), min(255, max(0, j + rng.choice([-1, 0, 1])))
            f = rng.uniform(0, 0.45)
            dl = (float(lons[i2, j2]) - lon + math.pi) % TWOPI - math.pi
            lat2, lon2 = lat + f * (float(lats[i2, j2]) - lat), (lon + f * dl) % TWOPI
            if abs(lat2) < math.radians(89):
                pts.append((f"edge@{nm}", lat2, lon2))
        return pts
    for kind, lat, lon in pixel_points():
        for nm, cs in systems:
            for d in ([1, 2, 3, 5, 8] if h.deep else [1, 3, 6]):
                try:
                    t, x, y = toast.toast_pixel_for_point(d, lat, lon, coordsys=cs)
                except Exception as e:  # noqa
                    h.violation("pixel:raise", f"{nm} system, depth {d}, point (lat {lat!r}, lon {lon!r}): toast_pixel_for_point raised {type(e).__name__}: {e}", input={"lat": lat, "lon": lon, "system": nm, "depth": d})
                    continue
                lons, lats = toast.toast_tile_get_coords(t)
                # nearest centre by angular distance
                v = xyz((lon, lat))
                cl = np.cos(lats)
                dots = cl * np.cos(lons) * v[0] + cl * np.sin(lons) * v[1] + np.sin(lats) * v[2]
                i_, j_ = np.unravel_index(int(np.argmax(dots)), (256, 256))
                if not (abs(float(x) - j_) <= 2.0 and abs(float(y) - i_) <= 2.0):
                    h.violation("pixel:far", f"{nm} system, depth {d}, point (lat {lat!r}, lon {lon!r}): returned pixel position (x {float(x):.3f}, y {float(y):.3f}) in tile {tuple(t.pos)}, "
                                f"but the nearest pixel centre is (x {int(j_)}, y {int(i_)})", input={"lat": lat, "lon": lon, "system": nm, "depth": d}, observed=[float(x), float(y), int(j_), int(i_)])
                else:
                    # the tile must be the one of the REQUESTED coordinate system that the tile lookup gives for the point …
                    try:
                        ref = toast.toast_tile_for_point(d, lat, lon, coordsys=cs)
                        own = toast.create_single_tile(t.pos, coordsys=cs)
                        cdiff = max(min(angdist_pt(a, b) for b in own.corners) for a in t.corners)
                        if tuple(ref.pos) != tuple(t.pos) or cdiff > 1e-9:
                            h.violation("pixel:tile", f"{nm} system, depth {d}, point (lat {lat!r}, lon {lon!r}): the pixel lookup answers in tile {tuple(t.pos)} with corners that are "
                                        f"{'not ' if cdiff > 1e-9 else ''}those of that position in the {nm} system; the tile lookup gives {tuple(ref.pos)}",
                                        input={"lat": lat, "lon": lon, "system": nm, "depth": d}, observed=[list(t.pos), list(ref.pos)])
                        # … and the same question asked again with the longitude on other 2π branches (same process, same tile)
                        for kk in (-1, 1, 0, 2):
                            t2, x2, y2 = toast.toast_pixel_for_point(d, lat, lon + kk * TWOPI, coordsys=cs)
                            # the same tile, and a position that still meets the 2-pixel bound (the fit is done in raw longitudes, so
                            # the fractional position itself moves by ~0.01 px between branches: that is within the statement)
                            if tuple(t2.pos) != tuple(t.pos) or abs(float(x2) - j_) > 2.0 or abs(float(y2) - i_) > 2.0:
                                h.violation("pixel:period", f"{nm} system, depth {d}, point (lat {lat!r}, lon {lon!r}): asked again with lon + {kk}·2π the pixel lookup answers "
                                            f"{tuple(t2.pos)} ({float(x2):.3f}, {float(y2):.3f}) instead of {tuple(t.pos)} ({float(x):.3f}, {float(y):.3f})",
                                            input={"lat": lat, "lon": lon, "system": nm, "depth": d, "turns": kk})
                                break
                    except Exception as e:  # noqa
                        h.violation("pixel:raise", f"{nm} system, depth {d}, point (lat {lat!r}, lon {lon!r}): repeated pixel lookup raised {type(e).__name__}: {e}", input={"lat": lat, "lon": lon, "system": nm, "depth": d})
                h.case(("pixel", nm, d, round(lat, 12), round(lon, 12)))
                h.count("pixel", kind.split("@")[0])
    return h.finish()


if __name__ == "__main__":
    sys.exit(main())
