"""C02 harness: real cascade_images on sparse pyramids vs an independent numpy statement of the
property and vs the Lean index map; serial and parallel."""
import multiprocessing as mp
import os
import shutil
import sys
import tempfile
import warnings

import numpy as np

from .common import Harness, lean_driver, diff_streams

KINDS = {
    # name: (format, dtype, channels)
    "fits/F32": ("fits", np.float32, 0), "npy/F32": ("npy", np.float32, 0), "npy/F64": ("npy", np.float64, 0),
    "png/RGBA": ("png", np.uint8, 4), "png/RGB": ("png", np.uint8, 3), "npy/U8": ("npy", np.uint8, 0), "fits/I16": ("fits", np.int16, 0),
    "npy/RGBA": ("npy", np.uint8, 4), "npy/I32": ("npy", np.int32, 0), "fits/I32": ("fits", np.int32, 0),
}


def make_leaf(r, dtype, ch, style):
    shape = (256, 256) if ch == 0 else (256, 256, ch)
    if np.dtype(dtype).kind == "f":
        a = (r.randint(1, 4000, size=shape) / 8.0).astype(dtype)       # dyadic: exact sums
        if style == "holes":
            a[r.rand(256, 256) < 0.3] = np.nan
        elif style == "band":
            a[: r.randint(1, 255)] = np.nan
        elif style == "checker":
            a[::2, 1::2] = np.nan
            a[1::2, ::2] = np.nan
        elif style in ("inf", "-inf"):
            # infinite values are defined values like any other: a block holding one averages to it
            v = np.inf if style == "inf" else -np.inf
            a[r.rand(256, 256) < 0.02] = v
            a[r.rand(256, 256) < 0.2] = np.nan
            if r.rand() < 0.3:
                a[:] = v
    else:
        if np.dtype(dtype).itemsize == 4:
            a = r.randint(2 ** 24, 2 ** 30, size=shape).astype(dtype)      # beyond single-precision integers
        elif np.dtype(dtype).itemsize == 2:
            a = r.randint(1, 32000, size=shape).astype(dtype)
        else:
            a = r.randint(1, 250, size=shape).astype(dtype)
        if ch in (3, 4) and np.dtype(dtype).itemsize == 1:
            # some pure-black pixels (opaque where there is an alpha plane): a defined colour like any other
            blk = r.rand(256, 256) < 0.05
            a[blk, :3] = 0
        if ch == 4:
            if style == "holes":
                a[..., 3][r.rand(256, 256) < 0.3] = 0
            elif style == "band":
                a[: r.randint(1, 255), :, 3] = 0
            elif style == "checker":
                a[::2, 1::2, 3] = 0
    return a


def display(arr, fmt):
    return arr[::-1] if fmt == "fits" else arr


def undefined_tile(dtype, ch_buf):
    shape = (256, 256) if ch_buf == 0 else (256, 256, ch_buf)
    return np.full(shape, np.nan, dtype=dtype) if np.dtype(dtype).kind == "f" else np.zeros(shape, dtype=dtype)


def spec_parent(children_disp, dtype, ch_buf):
    """the property: 2x2 reduction of the displayed mosaic; None = no tile"""
    if all(c is None for c in children_disp):
        return None
    mos = np.concatenate([
        np.concatenate([children_disp[0] if children_disp[0] is not None else undefined_tile(dtype, ch_buf),
                        children_disp[1] if children_disp[1] is not None else undefined_tile(dtype, ch_buf)], axis=1),
        np.concatenate([children_disp[2] if children_disp[2] is not None else undefined_tile(dtype, ch_buf),
                        children_disp[3] if children_disp[3] is not None else undefined_tile(dtype, ch_buf)], axis=1)], axis=0)
    if ch_buf == 4:
        # an RGBA child contributes only where its alpha != 0
        m = mos[..., 3] == 0
        mos = mos.copy()
        mos[m] = 0
    blk = mos.reshape((256, 2, 256, 2) + mos.shape[2:]).astype(np.float64)
    if np.dtype(dtype).kind == "f":
        with warnings.catch_warnings():
            warnings.simplefilter("ignore")
            out = np.nanmean(blk, axis=(1, 3)).astype(dtype)
        if np.all(np.isnan(out)):
            return None
    else:
        out = np.floor(blk.sum(axis=(1, 3)) / 4.0).astype(dtype)
        if ch_buf == 4 and np.all(out[..., 3] == 0):
            return None
    return out


def _cascade_target(base, fmt, depth, parallel, via_cli=None):
    from toasty.pyramid import PyramidIO
    from toasty.merge import cascade_images, averaging_merger
    import toasty.par_util
    toasty.par_util.SHOW_INFORMATIONAL_MESSAGES = False
    if isinstance(via_cli, str):
        # the same process has loaded an image with `--black-to-transparent` before (an earlier `tile-study` run in a script or a
        # notebook); that option belongs to that loader only
        import argparse
        from toasty.image import ImageLoader
        ImageLoader.create_from_args(argparse.Namespace(black_to_transparent=True, colorspace_processing="srgb", psd_single_layer=None, crop=None))
    with warnings.catch_warnings():
        warnings.simplefilter("ignore")
        if isinstance(via_cli, str):
            # the command-line entry point: `toasty cascade --start D [--format F] --parallelism P DIR`
            from toasty import cli
            args = ["cascade", "--start", str(depth), "--parallelism", str(parallel)]
            if via_cli == "format":
                args += ["--format", fmt]
            sys.stdout = sys.stderr = open(os.devnull, "w")
            cli.entrypoint(args + [base])
        elif isinstance(via_cli, tuple) and via_cli[0] == "filter":
            # a tile filter that accepts every populated tile (the route `tile_fits` takes for TOAST output)
            acc = via_cli[1]
            pio = PyramidIO(base, default_format=fmt)
            cascade_images(pio, depth, averaging_merger, parallel=parallel, tile_filter=lambda t: (t.pos.n, t.pos.x, t.pos.y) in acc)
        else:
            pio = PyramidIO(base, default_format=fmt)
            cascade_images(pio, depth, averaging_merger, parallel=parallel)
    return "ok"


def run_cascade(base, fmt, depth, parallel, timeout=120, via_cli=None):
    from .common import run_isolated
    st, val = run_isolated(_cascade_target, (base, fmt, depth, parallel, via_cli), timeout)
    if st == "ok":
        return "ok"
    if st == "hang":
        return "hang"
    return f"error: {val}"


def write_undefined(path, fmt, dtype, ch):
    """overwrite a leaf file, behind toasty's back, by a tile without a single defined pixel; False if the tile's kind cannot
    express that (opaque colour)"""
    if fmt in ("npy", "fits") and np.dtype(dtype).kind == "f":
        a = np.full((256, 256), np.nan, dtype=dtype)
        if fmt == "npy":
            np.save(path, a)
        else:
            from astropy.io import fits
            fits.PrimaryHDU(a).writeto(path, overwrite=True)
        return True
    if fmt == "png" and ch == 4:
        from PIL import Image as PImage
        PImage.fromarray(np.zeros((256, 256, 4), dtype=np.uint8), "RGBA").save(path)
        return True
    return False


def main():
    h = Harness("C02")
    from toasty.image import Image, ImageLoader
    from toasty.pyramid import PyramidIO, Pos
    rng = h.rng
    h.rule = ("sparse pyramids: depth 1-3, random subsets of leaves (incl. empty quadrants and single leaves), leaf contents with undefined pixels (holes, bands, checker) or none, "
              "formats fits/npy/png x float/int/RGB(A) (dyadic float values so means are exact), serial and 3-worker cascades; every parent compared with the 2x2 reduction of "
              "its children's displayed mosaic; non-trivial = parent with a missing child or undefined pixels; distinct by (kind, depth, leaf set, style)")
    root = tempfile.mkdtemp(prefix="vfc02_")
    lines, py = [], []
    n = 40 if h.deep else 12
    kinds = list(KINDS)
    try:
        for ci in range(n):
            kind = kinds[ci % len(kinds)]
            fmt, dtype, ch = KINDS[kind]
            ch_buf = 4 if ch in (3, 4) else 0
            depth = rng.choice([1, 2, 2, 3]) if h.deep else rng.choice([1, 2, 2])
            nleaf = 4 ** depth
            dens = rng.choice([0.15, 0.5, 0.9, 1.0])
            style = rng.choice(["full", "holes", "band", "checker"] + (["inf", "-inf"] if np.dtype(dtype).kind == "f" else []))
            leaves = {}
            r = np.random.RandomState(rng.randint(0, 2 ** 31 - 1))
            filtered_case = (ci % 3 != 0 and ci % 2 == 1)
            onechild = rng.random() < 0.35 or filtered_case
            if filtered_case and depth < 2:
                depth = 2
                nleaf = 4 ** depth
            for x in range(2 ** depth):
                for y in range(2 ** depth):
                    if not onechild and rng.random() < dens:
                        leaves[(x, y)] = make_leaf(r, dtype, ch, style)
            if onechild:
                # parents with a single child each, in any of the four quadrants
                q = rng.randrange(4)
                for px in range(2 ** (depth - 1)):
                    for py_ in range(2 ** (depth - 1)):
                        if rng.random() < 0.8:
                            leaves[(2 * px + (q & 1), 2 * py_ + (q >> 1))] = make_leaf(r, dtype, ch, style)
                            q = (q + 1) % 4
            if not leaves:
                leaves[(rng.randrange(2 ** depth), rng.randrange(2 ** depth))] = make_leaf(r, dtype, ch, style)
            results = {}
            for par in (1, 3):
                base = os.path.join(root, f"c{ci}_p{par}")
                pio = PyramidIO(base, default_format=fmt)
                with warnings.catch_warnings():
                    warnings.simplefilter("ignore")
                    for (x, y), a in leaves.items():
                        pio.write_image(Pos(depth, x, y), Image.from_array(a.copy()))
                # a third of the cascades go through the command line (`--format` given, or guessed from the files)
                via_cli = None if ci % 3 else ("format" if (ci // 3) % 2 == 0 else "guess")
                if via_cli is None and ci % 2 == 1:
                    # ... and a third pass a tile filter accepting exactly the populated tiles and their ancestors (plus a few others)
                    acc = set()
                    for (x, y) in leaves:
                        for lv in range(depth + 1):
                            acc.add((lv, x >> (depth - lv), y >> (depth - lv)))
                    for _ in range(rng.randrange(3)):
                        lv = rng.randint(1, depth)
                        acc.add((lv, rng.randrange(2 ** lv), rng.randrange(2 ** lv)))
                    via_cli = ("filter", frozenset(acc))
                st = run_cascade(base, fmt, depth, par, via_cli=via_cli)
                h.count("cascade", f"{kind}/par{par}" + (f"/cli-{via_cli}" if isinstance(via_cli, str) else "/filtered" if via_cli else ""))
                if st != "ok":
                    h.violation(f"run:{par}", f"cascade_images({kind}, depth {depth}, parallel={par}) {st}", input={"kind": kind, "depth": depth, "leaves": sorted(leaves), "parallel": par})
                    continue
                def check_disk(stage):
                    """read every tile back and compare each parent with the reduction of the children that are on disk now"""
                    # read everything back in display orientation
                    tiles = {}
                    for lv in range(depth + 1):
                        for x in range(2 ** lv):
                            for y in range(2 ** lv):
                                p = pio.tile_path(Pos(lv, x, y), makedirs=False)
                                if os.path.exists(p):
                                    with warnings.catch_warnings():
                                        warnings.simplefilter("ignore")
                                        tiles[(lv, x, y)] = display(np.array(ImageLoader().load_path(p).asarray()), fmt)
                    # ---- the property, level by level from the files on disk
                    bad = None
                    for lv in range(depth - 1, -1, -1):
                        for x in range(2 ** lv):
                            for y in range(2 ** lv):
                                cd = []
                                for (ix, iy) in ((0, 0), (1, 0), (0, 1), (1, 1)):
                                    t = tiles.get((lv + 1, 2 * x + ix, 2 * y + iy))
                                    if t is not None and t.ndim == 3 and t.shape[2] == 3:      # RGB child enters the RGBA buffer opaque
                                        t = np.concatenate([t, np.full((256, 256, 1), 255, dtype=np.uint8)], axis=2)
                                    cd.append(t)
                                want = spec_parent(cd, dtype, ch_buf)
                                got = tiles.get((lv, x, y))
                                if (want is None) != (got is None):
                                    bad = f"tile ({lv},{x},{y}) {'exists' if got is not None else 'is missing'} but {'no' if want is None else 'a'} tile is due (children present: {[c is not None for c in cd]})"
                                elif want is not None:
                                    g = got
                                    # float means: the code averages in the tile's own precision, the oracle in float64;
                                    # a mean over 3 defined values is not exactly representable, so allow a few ulps
                                    tol = 8 * float(np.finfo(g.dtype).eps) if g.dtype.kind == "f" else 0.0
                                    same = (g.shape == want.shape) and (np.allclose(g, want, rtol=tol, atol=0.0, equal_nan=True) if g.dtype.kind == "f" else np.array_equal(g, want))
                                    if not same:
                                        if g.shape == want.shape:
                                            ne = ~(np.isclose(g, want, rtol=tol, atol=0.0, equal_nan=True)) if g.dtype.kind == "f" else (g != want)
                                            idx = tuple(int(v) for v in np.argwhere(ne)[0])
                                            bad = f"tile ({lv},{x},{y}) pixel {idx}: got {g[idx]}, the block reduction gives {want[idx]} ({int(ne.sum())} values differ)"
                                        else:
                                            bad = f"tile ({lv},{x},{y}) has shape {g.shape}, expected {want.shape}"
                                if bad:
                                    break
                            if bad:
                                break
                        if bad:
                            break
                    if bad:
                        h.violation(f"block:{kind}" + ("" if stage == "first" else ":" + stage), f"{kind} depth {depth} parallel={par} style={style}" + ("" if stage == "first" else f" [{stage}]") + f": {bad}",
                                    input={"kind": kind, "depth": depth, "leaves": sorted(leaves), "style": style, "parallel": par, "stage": stage}, observed=bad)
                    return tiles, bad

                tiles, bad = check_disk("first")
                results[par] = tiles
                # ---- history: damage the leaf level of the finished pyramid (delete leaves, replace leaves by entirely
                # undefined ones written behind toasty's back) and cascade AGAIN over the existing files: parents whose
                # children are gone or undefined now must disappear, the others must be recomputed
                if not bad and (ci + par) % 2 == 0:
                    present = sorted(k for k in tiles if k[0] == depth)
                    rng.shuffle(present)
                    ndel = rng.randint(1, max(1, len(present) // 2))
                    dmg = {"deleted": [], "undefined": []}
                    for (lv, x, y) in present[:ndel]:
                        pth = pio.tile_path(Pos(lv, x, y), makedirs=False)
                        if rng.random() < 0.5 or not write_undefined(pth, fmt, dtype, ch):
                            os.unlink(pth)
                            dmg["deleted"].append((x, y))
                        else:
                            dmg["undefined"].append((x, y))
                    # the siblings of one damaged leaf go too, so that a whole quartet is dead
                    if present:
                        (lv, x, y) = present[0]
                        for (sx, sy) in ((x ^ 1, y), (x, y ^ 1), (x ^ 1, y ^ 1)):
                            pth = pio.tile_path(Pos(lv, sx, sy), makedirs=False)
                            if os.path.exists(pth):
                                os.unlink(pth)
                                dmg["deleted"].append((sx, sy))
                    st = run_cascade(base, fmt, depth, par)
                    h.count("recascade", f"{kind}/par{par}")
                    h.case(("recascade", kind, depth, par, tuple(sorted(leaves)), tuple(dmg["deleted"]), tuple(dmg["undefined"])))
                    if st != "ok":
                        h.violation(f"rerun:{par}", f"second cascade_images({kind}, depth {depth}, parallel={par}) over the damaged pyramid {st}", input={"kind": kind, "depth": depth, "damage": dmg})
                    else:
                        check_disk(f"re-cascade after deleting leaves {dmg['deleted']} and blanking {dmg['undefined']}")
                # ---- Lean index map on sampled pixels of one parent (stored orientation)
                if par == 1 and not bad:
                    cand = [k for k in tiles if k[0] == depth - 1]
                    if cand:
                        lv, x, y = cand[rng.randrange(len(cand))]
                        sign = 1 if fmt == "fits" else -1
                        kids = [tiles.get((lv + 1, 2 * x + ix, 2 * y + iy)) for (ix, iy) in ((0, 0), (1, 0), (0, 1), (1, 1))]
                        pres = "".join("1" if c is not None else "0" for c in kids)
                        stored_parent = display(tiles[(lv, x, y)], fmt)       # back to stored order
                        stored_kids = [None if c is None else display(c, fmt) for c in kids]
                        for _ in range(40):
                            i, j = rng.randrange(256), rng.randrange(256)
                            lines.append(f"casc map {sign} {i} {j} {pres}")
                            py.append((kind, stored_parent[i, j], stored_kids, dtype, ch_buf))
            if 1 in results and 3 in results:
                a, b = results[1], results[3]
                if set(a) != set(b) or any(not (np.array_equal(a[k], b[k], equal_nan=True) if a[k].dtype.kind == "f" else np.array_equal(a[k], b[k])) for k in a if k in b):
                    h.violation(f"serial-vs-parallel:{kind}", f"{kind} depth {depth}: serial and 3-worker cascades differ (tiles only in one: {sorted(set(a) ^ set(b))[:4]})",
                                input={"kind": kind, "depth": depth, "leaves": sorted(leaves), "style": style})
            nontriv = len(leaves) < nleaf or style != "full"
            h.case((kind, depth, tuple(sorted(leaves)), style) if nontriv else None)
            if ci < 2:
                h.sample({"kind": kind, "depth": depth, "n_leaves": len(leaves), "style": style})
            shutil.rmtree(os.path.join(root, f"c{ci}_p1"), ignore_errors=True)
            shutil.rmtree(os.path.join(root, f"c{ci}_p3"), ignore_errors=True)
        # ---- one directory holding the tiles of TWO formats (data tiles next to the colour tiles a transform wrote beside them):
        # `toasty cascade --format F` cascades format F, whichever format the files suggest first
        try:
            base2 = os.path.join(root, "twofmt")
            pio_n, pio_p = PyramidIO(base2, default_format="npy"), PyramidIO(base2, default_format="png")
            r2 = np.random.RandomState(rng.randint(0, 2 ** 31 - 1))
            leaves_n = {(x, y): make_leaf(r2, np.float32, 0, "holes") for (x, y) in ((0, 0), (1, 0), (1, 1))}
            leaves_p = {(x, y): make_leaf(r2, np.uint8, 4, "full") for (x, y) in ((0, 0), (1, 0), (0, 1), (1, 1))}
            with warnings.catch_warnings():
                warnings.simplefilter("ignore")
                for (x, y), a in leaves_n.items():
                    pio_n.write_image(Pos(1, x, y), Image.from_array(a.copy()))
                for (x, y), a in leaves_p.items():
                    pio_p.write_image(Pos(1, x, y), Image.from_array(a.copy()))
            for fmt2, leaves2, dtype2, chb in (("npy", leaves_n, np.float32, 0), ("png", leaves_p, np.uint8, 4)):
                st = run_cascade(base2, fmt2, 1, 1, via_cli="format")
                h.case(("two-formats", fmt2))
                h.count("cascade", f"two-formats/cli-format/{fmt2}")
                pth = (pio_n if fmt2 == "npy" else pio_p).tile_path(Pos(0, 0, 0), makedirs=False)
                want = spec_parent([leaves2.get(k) for k in ((0, 0), (1, 0), (0, 1), (1, 1))], dtype2, chb)
                bad2 = None
                if st != "ok":
                    bad2 = f"the command {st}"
                elif not os.path.exists(pth):
                    bad2 = f"no {fmt2} tile (0,0,0) was written although {len(leaves2)} of its children exist"
                else:
                    with warnings.catch_warnings():
                        warnings.simplefilter("ignore")
                        got2 = display(np.array(ImageLoader().load_path(pth).asarray()), fmt2)
                    ok2 = got2.shape == want.shape and (np.allclose(got2, want, rtol=8 * float(np.finfo(np.float32).eps), atol=0.0, equal_nan=True) if got2.dtype.kind == "f" else np.array_equal(got2, want))
                    if not ok2:
                        bad2 = f"the {fmt2} tile (0,0,0) is not the reduction of the {fmt2} children"
                if bad2:
                    h.violation(f"twoformats:{fmt2}", f"`toasty cascade --start 1 --format {fmt2}` on a directory holding npy and png tiles: {bad2}", input={"formats": ["npy", "png"], "requested": fmt2}, observed=bad2)
        except Exception as e:
            import traceback
            h.violation("twoformats:crash", f"the two-format cascade scenario raised {type(e).__name__}: {e}", input="two-formats", observed=traceback.format_exc()[-500:])
        # ---- apply the Lean index map to the real child files
        if lines:
            out = lean_driver(lines)
            nbad = 0
            for l, (kind, pv, kids, dtype, ch_buf), mo in zip(lines, py, out):
                vals = []
                for tok in mo.split():
                    if tok == "-":
                        vals.append(None)
                    else:
                        k, r_, c_ = (int(v) for v in tok.split(":"))
                        v = kids[k][r_, c_]
                        if v.ndim == 1 and v.shape[0] == 3:
                            v = np.concatenate([v, [255]])
                        if ch_buf == 4 and v[3] == 0:
                            v = None
                        elif np.dtype(dtype).kind == "f" and np.isnan(v):
                            v = None
                        vals.append(v)
                if np.dtype(dtype).kind == "f":
                    d = [float(v) for v in vals if v is not None]
                    exp = np.float64(np.nan) if not d else np.dtype(dtype).type(sum(d) / len(d))
                    ok = (np.isnan(pv) and np.isnan(exp)) or pv == exp
                else:
                    zero = np.zeros(4 if ch_buf == 4 else (), dtype=np.float64)
                    tot = sum((np.asarray(v, dtype=np.float64) if v is not None else zero) for v in vals)
                    exp = np.floor(tot / 4.0)
                    ok = np.array_equal(np.asarray(pv, dtype=np.float64), exp)
                if ok:
                    h.corr_ok("indexmap-vs-files")
                else:
                    nbad += 1
                    if nbad <= 3:
                        h.corr_fail("indexmap-vs-files", {"input": l, "impl": str(pv), "model": f"{mo} -> {exp}"})
    except Exception:
        import traceback
        h.corr_fail("indexmap-vs-files", {"error": traceback.format_exc()[-1500:]})
    finally:
        shutil.rmtree(root, ignore_errors=True)
    return h.finish()


if __name__ == "__main__":
    sys.exit(main())
