"""C05 harness: the pixel grid of a tile.

(a) the text of `_libtoasty._subsample` (transliterated on every run) executed on symbolic points for
    grids of 2, 4 and 8 pixels and compared term by term with the Lean model `Toast.subsample`;
(b) the real `toast_tile_get_coords` (compiled extension; and with the transliterated .pyx swapped in)
    against the centres of the tiles eight levels deeper as built by `create_single_tile`, for tiles of
    both coordinate systems queried in mixed order, and `_level0_coords` against the level-8 centres;
(c) numerical part of the property: every pixel centre lies inside its tile and inside the latitude
    range of the tile's corners; compiled extension vs .pyx text."""
import math
import os
import sys
import warnings

import numpy as np

from .common import Harness, lean_driver, diff_streams
from .c04 import S, sym_mid, Patched, xyz, angdist


def main():
    h = Harness("C05")
    rng = h.rng
    from toasty import toast
    from toasty.pyramid import Pos
    from .. import pyx2py
    CS = toast.ToastCoordinateSystem
    systems = [("a", CS.ASTRONOMICAL), ("p", CS.PLANETARY)]
    repo = os.environ.get("TOASTY_REPO", "/repo")
    pyx_path = os.path.join(repo, "toasty", "_libtoasty.pyx")
    h.rule = ("symbolic execution of the .pyx subdivision (2x2, 4x4, 8x8 grids; every tile to depth 2, random tiles to depth 4; both systems = both diagonal orientations) against the Lean model; "
              "real toast_tile_get_coords for random tiles to depth 10, both systems in mixed order, against the centres of the (n+8)-level tiles (corner pixels, quadrant boundaries and random pixels; "
              "all 65536 in the thorough tier for some tiles); _level0_coords against level-8 centres; containment and latitude-range of all pixel centres; non-trivial = every tile; distinct by (system, tile, mode)")
    # ------------------------------------------------------------------ (a) symbolic .pyx
    lines, py = [], []
    sym = pyx2py.load(pyx_path, mid_override=None, array_dtype=object)

    class SP:                         # symbolic Point as the transliteration expects (fields x, y)
        __slots__ = ("t",)

        def __init__(self, t):
            self.t = t

        @property
        def x(self):
            return self.t

        @property
        def y(self):
            return self.t

    def smid(a, b):
        return SP(f"m({a.t},{b.t})")
    sym["_mid"] = smid
    tiles = [(n, x, y) for n in (1, 2) for y in range(2 ** n) for x in range(2 ** n)]
    for _ in range(30 if h.deep else 8):
        n = rng.randint(3, 4)
        tiles.append((n, rng.randrange(2 ** n), rng.randrange(2 ** n)))
    for pos in tiles:
        for nm, cs in systems:
            with Patched(toast, mid=sym_mid):
                t = toast.create_single_tile(Pos(*pos), coordsys=cs)
            corners = [SP(S(c)) for c in t.corners]
            for k in ((1, 2, 3) if pos[0] <= 2 else (1, 2)):
                npix = 2 ** k
                xs = np.empty((npix, npix), dtype=object)
                ys = np.empty((npix, npix), dtype=object)
                try:
                    sym["_subsample"](corners[0], corners[1], corners[2], corners[3], xs, ys, 1 if t.increasing else 0)
                    flat = " ".join(str(xs[i, j]) for i in range(npix) for j in range(npix))
                    if any(xs[i, j] is not ys[i, j] and xs[i, j] != ys[i, j] for i in range(npix) for j in range(npix)):
                        flat = "lon/lat arrays filled from different points"
                except Exception as e:
                    flat = f"error {type(e).__name__}: {e}"
                lines.append(f"toast sub {nm} {pos[0]}.{pos[1]}.{pos[2]} {k}")
                py.append(flat)
                h.case(("sym", nm, pos, k))
                h.count("grid", f"sym-{npix}")
    try:
        out = lean_driver(lines)
        diff_streams(h, "symbolic-subsample", lines, py, out)
    except Exception as e:
        h.corr_fail("symbolic-subsample", {"error": str(e)[-800:]})

    # ------------------------------------------------------------------ (b), (c) floats
    pyx = pyx2py.load(pyx_path)
    modes = [("so", {}), ("pyx", {"mid": pyx["mid"], "subsample": pyx["subsample"]})]

    def centre(t):
        return toast.mid(t.corners[3], t.corners[1]) if t.increasing else toast.mid(t.corners[0], t.corners[2])

    def inside(t, p, tol=1e-12):
        c = [xyz(q) for q in t.corners]
        v = xyz(p)
        # orientation of the quad (the layout is mirrored between quadrants): take the sign from the centre
        ce = xyz(centre(t))
        ok = True
        for a, b in ((c[0], c[1]), (c[1], c[2]), (c[2], c[3]), (c[3], c[0])):
            nrm = np.cross(a, b)
            s = np.sign(np.dot(nrm, ce)) or 1.0
            if s * np.dot(nrm, v) < -tol:
                ok = False
        return ok

    for mode, patch in modes:
        with Patched(toast, **patch):
            ntiles = (14 if mode == "so" else 4) if h.deep else (5 if mode == "so" else 2)
            cases = [(1, rng.randrange(2), rng.randrange(2)), (2, rng.randrange(4), rng.randrange(4))]
            # deep tiles too (the statement has no depth limit), and at each run one that has a pole as a corner / lies beside one
            npole = rng.choice([11, 12, 13])
            cases.append((npole,) + rng.choice([(2 ** (npole - 1), 2 ** (npole - 1)), (2 ** (npole - 1) - 1, 2 ** (npole - 1)), (0, 0), (2 ** npole - 1, 0)]))
            ntiles += 1
            while len(cases) < ntiles:
                n = rng.choice([3, 4, 6, 8, 10, 11, 13])
                cases.append((n, rng.randrange(2 ** n), rng.randrange(2 ** n)))
            for ti, pos in enumerate(cases):
                order = systems if rng.random() < 0.5 else systems[::-1]
                for nm, cs in order:
                    n, x, y = pos
                    t = toast.create_single_tile(Pos(n, x, y), coordsys=cs)
                    lons, lats = toast.toast_tile_get_coords(t)
                    bad = None
                    if lons.shape != (256, 256) or lats.shape != (256, 256):
                        bad = f"coordinate arrays have shape {lons.shape}"
                    else:
                        pix = [(0, 0), (0, 255), (255, 0), (255, 255), (127, 128), (128, 127), (0, 1), (1, 0), (37, 201)]
                        full = h.thorough and ti < 2 and mode == "so"
                        if full:
                            pix = [(i, j) for i in range(256) for j in range(0, 256, 5)]
                        else:
                            pix += [(rng.randrange(256), rng.randrange(256)) for _ in range(40)]
                        for (i, j) in pix:
                            deep = toast.create_single_tile(Pos(n + 8, 256 * x + j, 256 * y + i), coordsys=cs)
                            ce = centre(deep)
                            d = angdist((lons[i, j], lats[i, j]), ce)
                            if d > 1e-10:
                                bad = f"pixel (row {i}, column {j}) is at ({float(lons[i, j])!r}, {float(lats[i, j])!r}), {d:.3g} rad from the centre of tile ({n + 8},{256 * x + j},{256 * y + i})"
                                break
                    if not bad:
                        # containment / latitude range, all pixels
                        clat = [float(c[1]) for c in t.corners]
                        lo, hi = min(clat) - 1e-12, max(clat) + 1e-12
                        out_lat = np.argwhere((lats < lo) | (lats > hi))
                        if len(out_lat):
                            i, j = (int(v) for v in out_lat[0])
                            bad = f"pixel (row {i}, column {j}) has latitude {float(lats[i, j])!r}, outside the corners' range [{min(clat)!r}, {max(clat)!r}] ({len(out_lat)} such pixels)"
                        else:
                            step = 1 if h.thorough else 7
                            for i in range(0, 256, step):
                                for j in range(0, 256, step):
                                    if not inside(t, (lons[i, j], lats[i, j])):
                                        bad = f"pixel (row {i}, column {j}) lies outside the tile"
                                        break
                                if bad:
                                    break
                    if not bad and mode == "so" and n <= 8:
                        # history: the grid of a tile must not depend on what was asked before — a point lookup inside the
                        # tile, the caller modifying the arrays it got, then the same question again
                        try:
                            keep_lon, keep_lat = np.array(lons, copy=True), np.array(lats, copy=True)
                            i0, j0 = rng.randrange(256), rng.randrange(256)
                            plat, plon = float(keep_lat[i0, j0]), float(keep_lon[i0, j0])
                            toast.toast_pixel_for_point(n, plat, plon, coordsys=cs)
                            l2, b2 = toast.toast_tile_get_coords(toast.create_single_tile(Pos(n, x, y), coordsys=cs))
                            if not (np.array_equal(l2, keep_lon) and np.array_equal(b2, keep_lat)):
                                dl = np.abs(np.asarray(l2) - keep_lon)
                                bad = (f"after toast_pixel_for_point({n}, lat {plat!r}, lon {plon!r}) the grid of the same tile changed "
                                       f"(longitudes differ by up to {float(np.max(dl)):.3g} rad)")
                            else:
                                l2[...] = 0.0
                                b2[...] = 0.0
                                l3, b3 = toast.toast_tile_get_coords(toast.create_single_tile(Pos(n, x, y), coordsys=cs))
                                if not (np.array_equal(l3, keep_lon) and np.array_equal(b3, keep_lat)):
                                    bad = "after the caller overwrote the arrays it had been given, the grid of the same tile changed (the result aliases retained state)"
                            h.count("history", "lookup-then-grid")
                        except Exception as e:
                            bad = f"grid / point lookup / grid on one tile raised {type(e).__name__}: {e}"
                        if bad:
                            h.violation(f"history:{mode}", f"{nm} system, tile {pos}: {bad}", input={"pos": pos, "system": nm, "history": ["toast_tile_get_coords", "toast_pixel_for_point", "toast_tile_get_coords"]}, observed=bad)
                            bad = None
                    if bad:
                        h.violation(f"pixels:{mode}", f"{nm} system, tile {pos} ({mode}): {bad}", input={"pos": pos, "system": nm, "mode": mode}, observed=bad)
                    h.case(("coords", mode, nm, pos))
                    h.count("tile-depth", n)
            # level 0
            for nm, cs in systems:
                lons, lats = toast._level0_coords(cs)
                bad = None
                pix = [(0, 0), (255, 255), (127, 127), (127, 128), (128, 127), (128, 128), (0, 255), (255, 0)] + [(rng.randrange(256), rng.randrange(256)) for _ in range(60)]
                for (i, j) in pix:
                    deep = toast.create_single_tile(Pos(8, j, i), coordsys=cs)
                    d = angdist((lons[i, j], lats[i, j]), centre(deep))
                    if d > 1e-10:
                        bad = f"level-0 pixel (row {i}, column {j}) is {d:.3g} rad from the centre of tile (8,{j},{i})"
                        break
                if bad:
                    h.violation(f"level0:{mode}", f"{nm} system ({mode}): {bad}", input={"system": nm, "mode": mode}, observed=bad)
                h.case(("level0", mode, nm))
    # history on ONE Tile object handed out by the enumerations: its grid, then a coordinate filter is asked about it (as a
    # filter-then-sample loop does), then its grid again
    try:
        from toasty import samplers as SMP
        flt_ = SMP._latlon_tile_filter(0.3, 2.9, -0.9, 1.1)
        for nm, cs in systems:
            gens = [("generate_tiles", toast.generate_tiles(3, bottom_only=False, coordsys=cs)),
                    ("generate_tiles_filtered", toast.generate_tiles_filtered(3, (lambda t: True), bottom_only=False, coordsys=cs))]
            for gname, gen in gens:
                tl = [t for t in gen if t.pos.n in (2, 3)]
                rng.shuffle(tl)
                badf = None
                for t in tl[:6]:
                    l1, b1 = (np.array(a, copy=True) for a in toast.toast_tile_get_coords(t))
                    flt_(t)
                    l2, b2 = toast.toast_tile_get_coords(t)
                    if not (np.array_equal(l1, l2) and np.array_equal(b1, b2)):
                        badf = f"tile {tuple(t.pos)} from {gname}: after a lon/lat-box filter was asked about it, its grid differs at {int(np.sum((l1 != l2) | (b1 != b2)))} pixels"
                        break
                h.case(("filter-then-grid", nm, gname))
                h.count("history", "filter-then-grid")
                if badf:
                    h.violation("history:filter", f"{nm} system: {badf}", input={"system": nm, "route": gname, "history": ["toast_tile_get_coords", "_latlon_tile_filter(tile)", "toast_tile_get_coords"]}, observed=badf)
    except Exception as e:
        h.violation("history:filter:crash", f"grid / filter / grid on enumerated tiles raised {type(e).__name__}: {e}", input="filter-then-grid")
    # the grid a SAMPLER is handed: `sample_layer` in one coordinate system and then in the other, in one process (whatever the
    # sampling machinery retains between runs must not carry a grid from one system into the other); level 1 and the level-0 tile
    import shutil
    import tempfile
    from toasty.pyramid import PyramidIO
    sroot = tempfile.mkdtemp(prefix="vfc05_")
    try:
        order = systems if rng.random() < 0.5 else systems[::-1]
        for depth in (1, 0):
            for nm, cs in order:
                grids = {}
                for which in ("lon", "lat"):
                    base = os.path.join(sroot, f"{nm}{depth}{which}")
                    pio = PyramidIO(base, default_format="npy")
                    with warnings.catch_warnings():
                        warnings.simplefilter("ignore")
                        probe = (lambda lon, lat, which=which: np.array(lon if which == "lon" else lat, dtype=np.float64))
                        if depth == 1:
                            # through the Builder entry point, with a filter that accepts everything (the filtered code path)
                            from toasty.builder import Builder
                            Builder(pio).toast_base(probe, depth, is_planet=(cs == toast.ToastCoordinateSystem.PLANETARY), tile_filter=(lambda t: True), parallel=1)
                        else:
                            toast.sample_layer(pio, probe, depth, coordsys=cs, parallel=1)
                    for x in range(2 ** depth):
                        for y in range(2 ** depth):
                            pth = pio.tile_path(Pos(depth, x, y), makedirs=False)
                            grids.setdefault((x, y), {})[which] = np.load(pth) if os.path.exists(pth) else None
                bad = None
                for (x, y), g in grids.items():
                    if g.get("lon") is None or g.get("lat") is None:
                        bad = f"tile ({depth},{x},{y}) was not written"
                        break
                    for (i, j) in [(0, 0), (255, 255), (0, 255), (128, 127)] + [(rng.randrange(256), rng.randrange(256)) for _ in range(12)]:
                        deep = toast.create_single_tile(Pos(depth + 8, 256 * x + j, 256 * y + i), coordsys=cs)
                        d = angdist((float(g["lon"][i, j]), float(g["lat"][i, j])), centre(deep))
                        if d > 1e-10:
                            bad = (f"the sampler filling tile ({depth},{x},{y}) was handed, for pixel (row {i}, column {j}), a point {d:.3g} rad from the centre of "
                                   f"tile ({depth + 8},{256 * x + j},{256 * y + i})")
                            break
                    if bad:
                        break
                h.case(("sampler-grid", nm, depth))
                h.count("sampler-grid", f"{nm}{depth}")
                if bad:
                    h.violation("sampler-grid", f"{nm} system, {'Builder.toast_base(tile_filter=accept-all)' if depth == 1 else 'sample_layer'} at depth {depth} (after {[o[0] for o in order]} in this order, depths 1 then 0): {bad}",
                                input={"system": nm, "depth": depth, "order": [o[0] for o in order]}, observed=bad)
    except Exception as e:
        import traceback
        h.violation("sampler-grid:crash", f"sample_layer with a recording sampler raised {type(e).__name__}: {e}", input="sampler-grid", observed=traceback.format_exc()[-500:])
    finally:
        shutil.rmtree(sroot, ignore_errors=True)
    # compiled extension vs the .pyx text
    from toasty import _libtoasty
    worst = 0.0
    for _ in range(6 if h.deep else 3):
        n = rng.choice([1, 2, 5, 9])
        t = toast.create_single_tile(Pos(n, rng.randrange(2 ** n), rng.randrange(2 ** n)), coordsys=rng.choice(systems)[1])
        a = _libtoasty.subsample(t.corners[0], t.corners[1], t.corners[2], t.corners[3], 64, t.increasing)
        b = pyx["subsample"](t.corners[0], t.corners[1], t.corners[2], t.corners[3], 64, t.increasing)
        worst = max(worst, float(np.max(np.abs(np.asarray(a[1]) - np.asarray(b[1])))))
        dl = np.abs(np.asarray(a[0]) - np.asarray(b[0]))
        worst = max(worst, float(np.max(np.minimum(dl, np.abs(dl - 2 * math.pi)) * np.cos(np.asarray(a[1])))))
        h.case(("so-vs-pyx", n))
    if worst > 1e-11:
        h.corr_fail("so-vs-pyx", {"detail": f"the compiled _libtoasty.subsample and the .pyx text differ by {worst:.3g} rad", "model": "pyx", "impl": "so"})
    else:
        h.corr_ok("so-vs-pyx", 1)
    return h.finish()


if __name__ == "__main__":
    sys.exit(main())
