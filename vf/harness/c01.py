"""C01 harness: Pyramid.walk — serial, under deterministic schedules (simmp) and with real processes."""
import multiprocessing as mp
import os
import shutil
import sys
import tempfile
import time

from .common import Harness, lean_driver, diff_streams
from . import pyrgen
from .. import simmp


def fp(p):
    return "%d.%d.%d" % p


def parse_pos(tok):
    return tuple(int(v) for v in tok.strip("()").split(","))


def walk_sim(case, par, chooser, max_steps=20000, pyr=None):
    """one simulated parallel walk; `pyr`: walk this Pyramid object (again) instead of a freshly built one"""
    log = []

    def cb(pos):
        t = (pos.n, pos.x, pos.y)
        simmp.step_point("cb-begin", "(%d,%d,%d)" % t)
        log.append(("B", t))
        simmp.step_point("cb-end", "(%d,%d,%d)" % t)
        log.append(("E", t))

    def job():
        (pyr if pyr is not None else case.build()).walk(cb, parallel=par)
    sim = simmp.simulate(job, chooser, max_steps=max_steps, hang_window=300)
    return sim, log


def to_labels(trace):
    labels, unknown = [], []
    started = False

    def wid(n):
        return int(n[1:]) - 1
    for line in trace:
        t = line.split()
        who, kind = t[0], t[1]
        if who == "M":
            if kind == "put":
                labels.append(("seed:" if not started else "release:") + fp(parse_pos(t[3])))
            elif kind == "start":
                started = True
                labels.append(f"start:{wid(t[2])}")
            elif kind == "rlock":
                labels.append("dlock")
            elif kind == "empty":
                labels.append("dempty")
            elif kind == "recv":
                labels.append("drecv:" + fp(parse_pos(t[3])))
            elif kind == "close":
                labels.append("close")
            elif kind == "join-thread":
                labels.append("jt")
            elif kind == "set-flag" and t[2] == "e0":
                labels.append("set")
            elif kind == "flag?" and t[2] == "e1":
                pass        # the parent's final look at the error flag (C19)
            elif kind == "join":
                labels.append(f"join:{wid(t[2])}")
            else:
                unknown.append(line)
        elif who == "F":
            q, owner, item = t[2], t[3], t[4]
            if q == "q0":
                labels.append("rflush:" + fp(parse_pos(item)))
            else:
                labels.append(f"dflush:{wid(owner)}:" + fp(parse_pos(item)))
        elif who.startswith("W"):
            k = wid(who)
            if kind == "begin":
                labels.append(f"begin:{k}")
            elif kind == "rlock":
                labels.append(f"rl:{k}")
            elif kind == "rlock-timeout":
                labels.append(f"rt:{k}")
            elif kind == "empty":
                labels.append(f"re:{k}")
            elif kind == "recv":
                labels.append(f"rr:{k}:" + fp(parse_pos(t[3])))
            elif kind == "flag?" and t[2] == "e0":
                labels.append(f"fq:{k}:{1 if t[3] == 'true' else 0}")
            elif kind == "cb-begin":
                labels.append(f"cbb:{k}:" + fp(parse_pos(t[2])))
            elif kind == "cb-end":
                labels.append(f"cbe:{k}:" + fp(parse_pos(t[2])))
            elif kind == "put":
                labels.append(f"dput:{k}:" + fp(parse_pos(t[3])))
            else:
                unknown.append(line)
        else:
            unknown.append(line)
    return labels, unknown


def judge_log(case, log, returned, what):
    """the property on a recorded callback log [(B|E, pos)…]"""
    leaves, live, ops = case.spec()
    begun = [p for (k, p) in log if k == "B"]
    ended = [p for (k, p) in log if k == "E"]
    if not returned:
        return f"the walk did not return ({what})"
    if sorted(begun) != sorted(ops):
        extra = sorted(set(begun) - ops)
        miss = sorted(ops - set(begun))
        dup = sorted({p for p in begun if begun.count(p) > 1})
        return f"callbacks ran for {len(begun)} tiles, the live non-leaf tiles are {len(ops)} (spurious: {extra[:4]}, missing: {miss[:4]}, repeated: {dup[:4]})"
    if sorted(ended) != sorted(begun):
        return "a callback was still running when the walk returned"
    pos_end = {}
    for i, (k, p) in enumerate(log):
        if k == "E":
            pos_end[p] = i
    for i, (k, p) in enumerate(log):
        if k == "B":
            for c in pyrgen.children(p):
                if c in ops and not (c in pos_end and pos_end[c] < i):
                    return f"the callback of {p} started before the callback of its live child {c} had completed"
    return None


def _real_target(case, par, d):
    import toasty.par_util
    toasty.par_util.SHOW_INFORMATIONAL_MESSAGES = False

    def cb(pos):
        t0 = time.monotonic_ns()
        time.sleep(0.002)
        t1 = time.monotonic_ns()
        with open(os.path.join(d, f"{os.getpid()}_{pos.n}_{pos.x}_{pos.y}_{t0}"), "w") as f:
            f.write(f"{t0} {t1}")
    case.build().walk(cb, parallel=par)
    return "ok"


def real_walk(case, par, timeout=90):
    from .common import run_isolated
    d = tempfile.mkdtemp(prefix="vfc01r_")
    try:
        st, val = run_isolated(_real_target, (case, par, d), timeout)
        if st == "hang":
            return None, "hang"
        if st != "ok":
            return None, f"{st}: {val}"
        log = []
        for name in os.listdir(d):
            _pid, n, x, y, _t = name.split("_")
            t0, t1 = (int(v) for v in open(os.path.join(d, name)).read().split())
            log.append((t0, "B", (int(n), int(x), int(y))))
            log.append((t1, "E", (int(n), int(x), int(y))))
        log.sort()
        return [(k, p_) for (_t, k, p_) in log], "ok"
    finally:
        shutil.rmtree(d, ignore_errors=True)


def main():
    h = Harness("C01")
    rng = h.rng
    import toasty.par_util
    toasty.par_util.SHOW_INFORMATIONAL_MESSAGES = False
    h.rule = ("pyramids from the shared generator (all depth-1 accept-sets x apexes, unfiltered depth<=2 x apexes, random hierarchical accept-sets incl. tiles accepted with no accepted child, "
              "sub-pyramid apexes inside/outside the accepted region), depth<=4; serial walk, 2-4 simulated workers under random schedules (time-out bias varied) and real processes; "
              "non-trivial = pyramid with >=2 operations and a filter or sub-pyramid; distinct by (pyramid, schedule)")
    cases = [c for c in pyrgen.cases(rng, 160 if h.deep else 50, 4 if h.deep else 3) if not (c.apex is not None and c.apex[0] > c.depth)]
    lines, py = [], []
    # ---- serial walks: the callback log against the property and the model
    for c in cases:
        leaves, live, ops = c.spec()
        log = []

        def cb(pos):
            t = (pos.n, pos.x, pos.y)
            log.append(("B", t))
            log.append(("E", t))
        try:
            c.build().walk(cb, parallel=1)
            bad = judge_log(c, log, True, "")
        except Exception as e:
            bad = f"raised {type(e).__name__}: {e}"
        if bad:
            h.violation("serial", f"serial walk of [{c.line()}]: {bad}", input=c.line(), observed=bad)
        lines.append("pyr walk " + c.line())
        py.append(" ".join("(%d,%d,%d)" % p for (k, p) in log if k == "B"))
        h.case(("serial",) + c.key() if len(ops) >= 2 and (c.acc is not None or c.apex) else None)
        h.count("mode", "serial")
    # ---- a fixed history: a filtered walk that accepts tile (1,0,0) and none of its children (so it is dead, with every child
    # pre-readied), then the full depth-3 pyramid in the same process, several schedules
    for hi in range(8 if h.deep else 4):
        first = pyrgen.PyrCase(3, "t", {(1, 0, 0), (1, 1, 0), (2, 2, 0), (3, 4, 0), (3, 5, 1)})
        # the second walk: the whole pyramid, or just the sub-pyramid below the tile that was dead in the first walk (its four
        # children are then the only seeds, so a parent released too early is picked up while its siblings still run)
        second = pyrgen.PyrCase(3, "g") if hi % 2 else pyrgen.PyrCase(3, "g", None, (1, 0, 0))
        try:
            sim1, log1 = walk_sim(first, 2, simmp.RandomChooser(rng.randrange(2 ** 31), timeout_weight=0.05))
            bad1 = judge_log(first, log1, sim1.outcome == "ok", sim1.outcome)
            par2 = rng.choice([3, 4])
            # schedules that park a worker inside its callback (right after it began) while everything else goes on
            sim2, log2 = walk_sim(second, par2, simmp.DelayAfterChooser(rng.randrange(2 ** 31), kinds=("cb-begin",), prob=rng.choice([0.3, 0.6]), max_sleep=rng.choice([30, 80])))
            bad2 = judge_log(second, log2, sim2.outcome == "ok", sim2.outcome)
        except Exception as e:
            h.violation("parallel:history", f"walking [{first.line()}] and then [{second.line()}] in one process raised {type(e).__name__}: {e}", input={"first": first.line(), "second": second.line()})
            continue
        h.case(("history-fixed", hi, tuple(sim2.choices)))
        h.count("mode", "sim-after-dead-tile")
        if bad1 or bad2:
            h.violation("parallel:history", f"walk of [{first.line()}] (2 workers) and then of the full pyramid [{second.line()}] ({par2} workers) in one process: {'first walk: ' + bad1 if bad1 else 'second walk: ' + bad2}",
                        input={"first": first.line(), "second": second.line(), "workers": par2, "choices": sim2.choices[:600], "trace": sim2.trace[:150]}, observed=bad1 or bad2)
    # ---- the SAME Pyramid object walked twice (whatever the first walk prepared or consumed must not be reused half-spent):
    # pyramids in which some live parent has a dead child, and sub-pyramids
    def has_dead_child(c):
        ops = c.spec()[2]
        return any((p[0] + 1, 2 * p[1] + dx, 2 * p[2] + dy) not in ops and p[0] + 1 < c.depth for p in ops for dx in (0, 1) for dy in (0, 1))
    twice = ([c for c in cases if len(c.spec()[2]) >= 2 and has_dead_child(c)][: (8 if h.deep else 3)]
             + [c for c in cases if c.spec()[2] and c.apex][: (4 if h.deep else 1)])
    for c in twice:
        try:
            obj = c.build()
            sim1, log1 = walk_sim(c, 2, simmp.RandomChooser(rng.randrange(2 ** 31), timeout_weight=0.05), pyr=obj)
            sim2, log2 = walk_sim(c, rng.choice([2, 3]), simmp.RandomChooser(rng.randrange(2 ** 31), timeout_weight=0.05), pyr=obj)
        except Exception as e:
            h.violation("parallel:twice", f"walking one Pyramid object [{c.line()}] twice raised {type(e).__name__}: {e}", input={"pyramid": c.line()})
            continue
        h.case(("twice", c.key(), tuple(sim2.choices)))
        h.count("mode", "sim-same-object-twice")
        for which, (sm, lg) in (("first", (sim1, log1)), ("second", (sim2, log2))):
            what = sm.outcome + (f": {type(sm.main.exc).__name__}: {sm.main.exc}" if sm.main.exc is not None else "")
            bad = judge_log(c, lg, sm.outcome == "ok", what)
            if bad:
                h.violation("parallel:twice", f"one Pyramid object [{c.line()}] walked twice in parallel: the {which} walk: {bad}",
                            input={"pyramid": c.line(), "which": which, "choices": sm.choices[:600], "trace": sm.trace[:150]}, observed=bad)
                break
    # ---- simulated parallel walks
    nsim = 500 if h.deep else 130
    pool = [c for c in cases if c.spec()[2]]
    gaps = [c for c in pool if getattr(c, "tag", None) == "gap"]
    for si in range(nsim):
        # a share of the schedules goes to the pyramids with a dead accepted tile next to live siblings, with enough workers
        # for a prematurely released parent to start while a sibling is still running
        if gaps and si % 3 == 0:
            c = rng.choice(gaps)
            par = rng.choice([3, 4])
        else:
            c = rng.choice(pool)
            par = rng.choice([2, 2, 3, 4])
        tw = rng.choice([0.02, 0.1, 0.5])
        if si % 4 == 1:
            # priority-based schedules: a process stays suspended at one point while the others run long stretches
            tw = "pct"
            chooser = simmp.PCTChooser(rng.randrange(2 ** 31), depth=rng.choice([1, 2, 3, 4]), timeout_prob=rng.choice([0.3, 0.7]))
        elif si % 8 == 3:
            tw = "delay-after-" + rng.choice(["cb-begin", "put"])
            chooser = simmp.DelayAfterChooser(rng.randrange(2 ** 31), kinds=(tw[len("delay-after-"):],), prob=rng.choice([0.3, 0.6]), max_sleep=rng.choice([30, 80]))
        else:
            chooser = simmp.RandomChooser(rng.randrange(2 ** 31), timeout_weight=tw, feeder_weight=rng.choice([1.0, 0.2]))
        sim, log = walk_sim(c, par, chooser)
        what = sim.outcome + (f": {type(sim.main.exc).__name__}: {sim.main.exc}" if sim.main.exc is not None else "")
        bad = judge_log(c, log, sim.outcome == "ok", what)
        if not bad and sim.alive_at_return:
            bad = f"returned while workers {sim.alive_at_return} were still running"
        raised = [l for l in sim.trace if " raised " in l]
        if not bad and raised:
            bad = f"a worker died: {raised[0]}"
        if bad:
            h.violation("parallel:" + ("hang" if "did not return" in bad else "order" if "before" in bad else "set"),
                        f"walk of [{c.line()}] with {par} workers under a random schedule (time-out weight {tw}): {bad}",
                        input={"pyramid": c.line(), "workers": par, "choices": sim.choices[:600], "trace": sim.trace[:150]}, observed=bad)
        labels, unknown = to_labels(sim.trace)
        leaves, live, ops = c.spec()
        h.case((c.key(), tuple(sim.choices)) if len(ops) >= 2 and (c.acc is not None or c.apex) else None)
        h.count("mode", f"sim{par}")
        h.count("ops", min(len(ops), 20))
        h.count("outcome", sim.outcome)
        if unknown:
            h.corr_fail("trace-replay", {"input": c.line(), "impl": unknown[:3], "model": "step outside the model's alphabet"})
        elif sim.outcome == "ok":
            lines.append(f"walk replay {par} {c.line()} :: " + " ".join(labels))
            evs = ",".join(("B" if k == "B" else "E") + "(%d,%d,%d)" % p for (k, p) in log)
            py.append(f"ok returned exited=true log={evs}")
            h.traces += 1
        if si < 2:
            h.sample({"pyramid": c.line(), "workers": par, "trace": sim.trace[:30]})
        # history: right after a walk of a pyramid with a dead accepted tile, the same process walks the FULL pyramid of that depth
        # (a fresh Pyramid object) — nothing the first walk left behind (readiness entries that were never released) may be seen
        if getattr(c, "tag", None) == "gap" and si % 2 == 0:
            c2 = pyrgen.PyrCase(c.depth, "g")
            par2 = rng.choice([3, 4])
            ch2 = simmp.PCTChooser(rng.randrange(2 ** 31), depth=rng.choice([1, 2, 3]), timeout_prob=0.3) if si % 4 == 0 else simmp.RandomChooser(rng.randrange(2 ** 31), timeout_weight=0.05)
            sim2, log2 = walk_sim(c2, par2, ch2)
            what2 = sim2.outcome + (f": {type(sim2.main.exc).__name__}: {sim2.main.exc}" if sim2.main.exc is not None else "")
            bad2 = judge_log(c2, log2, sim2.outcome == "ok", what2)
            h.case(("history", c.key(), c2.key(), tuple(sim2.choices)))
            h.count("mode", "sim-after-gap")
            if bad2:
                h.violation("parallel:history", f"walk of the full pyramid [{c2.line()}] with {par2} workers, in a process that had just walked [{c.line()}]: {bad2}",
                            input={"first": c.line(), "second": c2.line(), "workers": par2, "choices": sim2.choices[:600], "trace": sim2.trace[:150]}, observed=bad2)
    # ---- prologue: the model's totals and seeds against the real counters
    for c in pool[:40]:
        lines.append("walk pro " + c.line())
        leaves, live, ops = c.spec()
        seeds = [p for p in ops if p[0] == c.depth - 1]
        # the seeds in generator order = order of the serial visit restricted to that level
        py.append(None)
    # ---- real processes
    reals = [c for c in pool if len(c.spec()[2]) >= 3][: (6 if h.deep else 3)]
    for c in reals:
        for par in ((2, 4) if h.deep else (3,)):
            log, st = real_walk(c, par)
            h.case(("real", c.key(), par))
            h.count("mode", f"real{par}")
            if log is None or st != "ok":
                h.violation("real:hang" if st == "hang" else "real:error", f"walk of [{c.line()}] with {par} real worker processes: {st}", input=c.line())
                continue
            bad = judge_log(c, log, True, "")
            if bad:
                h.violation("real:order", f"walk of [{c.line()}] with {par} real worker processes: {bad}", input=c.line(), observed=bad)
    try:
        out = lean_driver(lines)
        sel = [(l, a, b) for l, a, b in zip(lines, py, out) if a is not None]
        diff_streams(h, "trace-replay", [x[0][:300] for x in sel], [x[1] for x in sel], [x[2] for x in sel])
        for l, a, b in zip(lines, py, out):
            if a is None and not b.startswith("total="):
                h.corr_fail("trace-replay", {"input": l, "model": b})
    except Exception as e:
        h.corr_fail("trace-replay", {"error": str(e)[-800:]})
    return h.finish()


if __name__ == "__main__":
    sys.exit(main())
