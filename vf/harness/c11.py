"""C11 harness: plate-carree samplers at exact rational points."""
import sys
import warnings
from fractions import Fraction as F

import numpy as np

from .common import Harness, lean_driver, diff_streams

TWOPI = 2 * np.pi


def frs(f):
    return str(f.numerator) if f.denominator == 1 else f"{f.numerator}/{f.denominator}"


def fmod1(x):
    return x - (x.numerator // x.denominator)


def layout_tx(variant, nx, u):
    """position of longitude u (turns) in pixel units from the left edge, per the documented layout"""
    if variant in ("sky", "galactic"):
        return (1 - fmod1(u + F(1, 2))) * nx
    if variant == "zeroright":
        return (1 - fmod1(u)) * nx
    if variant == "planet":
        return fmod1(u + F(1, 2)) * nx
    return fmod1(u) * nx


def layout_ty(ny, v):
    return (F(1, 4) - v) * 2 * ny


def off_boundary(t, tol=F(1, 10 ** 7)):
    r = t - (t.numerator // t.denominator)
    return tol < r < 1 - tol


def main():
    h = Harness("C11")
    from toasty import samplers as S
    rng = h.rng
    variants = {
        "sky": S.plate_carree_sampler, "zeroright": S.plate_carree_zeroright_sampler,
        "planet": S.plate_carree_planet_sampler, "zeroleft": S.plate_carree_planet_zeroleft_sampler,
    }
    h.rule = ("map shapes incl. 1x1, 2x1, odd sizes, 360x180, 1001x333; points lon = 2*pi*a/b, lat = 2*pi*c/d with small denominators (997, 64, 360, 7) "
              "strictly inside cells (exact test on rationals), shifted by -3..3 whole turns; four variants + Galactic; scalar and RGB maps, 2-D request shapes; "
              "non-trivial = every point (each pins one cell); distinct by (variant, shape, point)")
    shapes = [(1, 1), (1, 2), (2, 1), (3, 5), (5, 3), (7, 101), (2, 4), (180, 360), (333, 1001), (4, 9), (256, 512)]
    lines, py = [], []
    npts = 160 if h.deep else 40
    for variant, mk in variants.items():
        for (ny, nx) in shapes:
            data = (np.arange(ny * nx).reshape(ny, nx)).astype(np.int64)
            try:
                smp = mk(data)
            except Exception as e:
                h.violation(f"build:{variant}:{ny}x{nx}", f"{variant} sampler on a {ny}x{nx} map raised {type(e).__name__}: {e}", input=[variant, ny, nx])
                continue
            pts = []
            tries = 0
            while len(pts) < npts and tries < npts * 20:
                tries += 1
                den = rng.choice([997, 64, 360, 7, 2 * nx, 3 * nx])
                u = F(rng.randint(-den, 2 * den), den)
                dv = rng.choice([997, 64, 360, 4 * ny])
                v = F(rng.randint(-dv // 4, dv // 4), dv)
                if abs(v) > F(1, 4):
                    continue
                k = rng.choice([0, 0, 0, 1, -1, 2, -2, 3, -3])
                if not (off_boundary(layout_tx(variant, nx, u)) and off_boundary(layout_ty(ny, v))):
                    h.count("discarded", "on-boundary")
                    continue
                pts.append((u, v, k))
            if not pts:
                continue
            lon = np.array([[float(u + k) * TWOPI for (u, v, k) in pts]])
            lat = np.array([[float(v) * TWOPI for (u, v, k) in pts]])
            try:
                got = smp(lon, lat)
            except Exception as e:
                h.violation(f"crash:{variant}:{ny}x{nx}", f"{variant} sampler {ny}x{nx} raised {type(e).__name__}: {e}", input=[variant, ny, nx])
                continue
            if got.shape != lon.shape:
                h.violation(f"shape:{variant}", f"{variant} {ny}x{nx}: result shape {got.shape} for request {lon.shape}", input=[variant, ny, nx])
                continue
            for j, (u, v, k) in enumerate(pts):
                iy, ix = divmod(int(got[0, j]), nx)
                tx, ty = layout_tx(variant, nx, u), layout_ty(ny, v)
                ex, ey = tx.numerator // tx.denominator, ty.numerator // ty.denominator
                h.case((variant, ny, nx, u, v, k))
                h.count("variant", variant)
                h.count("turn_shift", k)
                lines.append(f"sampler {variant} {nx} {ny} {frs(u + k)} {frs(v)}")
                py.append(f"{iy} {ix}")
                if (iy, ix) != (ey, ex):
                    h.violation(f"cell:{variant}:{'odd' if nx % 2 else 'even'}:{'shift' if k else 'noshift'}",
                                f"{variant} map {ny}x{nx}: point lon={frs(u + k)} turn, lat={frs(v)} turn lies in cell (row {ey}, col {ex}) "
                                f"but the sampler returned (row {iy}, col {ix})", input={"variant": variant, "ny": ny, "nx": nx, "lon_turns": frs(u + k), "lat_turns": frs(v)})
            if len(h.samples) < 4:
                h.sample({"variant": variant, "shape": [ny, nx], "point": [frs(pts[0][0]), frs(pts[0][1])], "index": py[-len(pts)]})
    # the poles exactly (lat = ±π/2 as the code's own HALFPI): the only rows whose cells contain them are the first / last,
    # whatever the half-way rounding does — an index that wraps instead of being clipped shows here
    for variant, mk in variants.items():
        for (ny, nx) in shapes:
            data = (np.arange(ny * nx).reshape(ny, nx)).astype(np.int64)
            try:
                smp = mk(data)
                lon = np.array([[rng.uniform(-7.0, 7.0) for _ in range(6)]])
                for sign, want in ((1.0, 0), (-1.0, ny - 1)):
                    got = smp(lon, np.full_like(lon, sign * (np.pi / 2)))
                    rows = sorted(set(int(g) // nx for g in got.ravel()))
                    h.case(("pole", variant, ny, nx, sign))
                    h.count("pole", variant)
                    if rows != [want]:
                        h.violation(f"pole:{variant}", f"{variant} map {ny}x{nx}: latitude {'+' if sign > 0 else '-'}pi/2 is in row {want} only, the sampler returned row(s) {rows}",
                                    input={"variant": variant, "ny": ny, "nx": nx, "lat": sign * (np.pi / 2), "lon": [float(x) for x in lon.ravel()]})
            except Exception as e:
                h.violation(f"pole-crash:{variant}", f"{variant} sampler {ny}x{nx} at a pole raised {type(e).__name__}: {e}", input=[variant, ny, nx])
    # colour axes and request shapes
    rgb = np.zeros((6, 12, 3), dtype=np.uint8)
    rgb[..., 0] = np.arange(6)[:, None]
    rgb[..., 1] = np.arange(12)[None, :]
    for variant, mk in variants.items():
        smp = mk(rgb)
        lon = np.array([[0.3, 1.1, 5.0], [2.2, 3.3, 4.4]])
        lat = np.array([[0.1, -0.2, 1.0], [-1.0, 0.5, 0.0]])
        out = smp(lon, lat)
        h.case(("rgb", variant))
        if out.shape != (2, 3, 3):
            h.violation(f"shape:{variant}:rgb", f"{variant}: RGB map sampled on a (2,3) request gives shape {out.shape}", input=variant)
        scal = mk(np.arange(72).reshape(6, 12))(lon, lat)
        if not (np.array_equal(out[..., 0], scal // 12) and np.array_equal(out[..., 1], scal % 12)):
            h.violation(f"shape:{variant}:rgb", f"{variant}: RGB map indexed differently from a scalar map", input=variant)
    # Galactic: same indexing as the sky sampler applied to astropy's own (l, b)
    try:
        from astropy.coordinates import Galactic, ICRS
        import astropy.units as u_
        for (ny, nx) in [(5, 3), (180, 360), (7, 101)]:
            data = np.arange(ny * nx).reshape(ny, nx)
            lon = np.array([[rng.uniform(0, TWOPI) for _ in range(50)]])
            lat = np.array([[rng.uniform(-1.5, 1.5) for _ in range(50)]])
            with warnings.catch_warnings():
                warnings.simplefilter("ignore")
                g = S.plate_carree_galactic_sampler(data)(lon, lat)
                gal = ICRS(lon * u_.rad, lat * u_.rad).transform_to(Galactic())
                s = S.plate_carree_sampler(data)(gal.l.rad, gal.b.rad)
            h.case(("galactic", ny, nx))
            if not np.array_equal(g, s):
                h.violation("galactic", f"Galactic sampler on {ny}x{nx} differs from the sky sampler applied to the rotated coordinates at {int((g != s).sum())} of 50 points", input=[ny, nx])
    except Exception as e:
        h.violation("galactic:crash", f"Galactic sampler raised {type(e).__name__}: {e}", input="galactic")
    # Ecliptic: same indexing as the zero-right sky sampler applied to astropy's own ecliptic (lon, lat) — theorem
    # `ecliptic_eq_zeroright` for the extracted index arithmetic; periodic in the ICRS longitude; shape = request + colour axes
    try:
        from astropy.coordinates import BarycentricTrueEcliptic, ICRS
        import astropy.units as u_
        for (ny, nx) in [(5, 3), (180, 360), (7, 101), (1, 1), (2, 5)]:
            data = np.arange(ny * nx).reshape(ny, nx)
            lon = np.array([[rng.uniform(0, TWOPI) for _ in range(50)]])
            lat = np.array([[rng.uniform(-1.5, 1.5) for _ in range(50)]])
            with warnings.catch_warnings():
                warnings.simplefilter("ignore")
                g = S.plate_carree_ecliptic_sampler(data)(lon, lat)
                g2 = S.plate_carree_ecliptic_sampler(data)(lon + TWOPI, lat)
                ecl = ICRS(lon * u_.rad, lat * u_.rad).transform_to(BarycentricTrueEcliptic())
                s = S.plate_carree_zeroright_sampler(data)(ecl.lon.rad, ecl.lat.rad)
            h.case(("ecliptic", ny, nx))
            if not np.array_equal(g, s):
                h.violation("ecliptic", f"ecliptic sampler on {ny}x{nx} differs from the zero-right sampler applied to the rotated coordinates at {int((g != s).sum())} of 50 points", input=[ny, nx])
            elif (g != g2).mean() > 0.1:
                h.violation("ecliptic:period", f"ecliptic sampler on {ny}x{nx} is not periodic in longitude ({int((g != g2).sum())} of 50 points differ after one turn)", input=[ny, nx])
            if g.shape != lon.shape or g.min() < 0 or g.max() >= ny * nx:
                h.violation("ecliptic:shape", f"ecliptic sampler on {ny}x{nx}: result shape {g.shape} for request {lon.shape}", input=[ny, nx])
        for name, mk in (("galactic", S.plate_carree_galactic_sampler), ("ecliptic", S.plate_carree_ecliptic_sampler)):
            lon = np.array([[0.3, 1.1, 5.0], [2.2, 3.3, 4.4]])
            lat = np.array([[0.1, -0.2, 1.0], [-1.0, 0.5, 0.0]])
            with warnings.catch_warnings():
                warnings.simplefilter("ignore")
                out = mk(rgb)(lon, lat)
                scal = mk(np.arange(72).reshape(6, 12))(lon, lat)
            h.case(("rgb", name))
            if out.shape != (2, 3, 3) or not (np.array_equal(out[..., 0], scal // 12) and np.array_equal(out[..., 1], scal % 12)):
                h.violation(f"shape:{name}:rgb", f"{name}: RGB map sampled on a (2,3) request gives shape {out.shape} or indexes differently from a scalar map", input=name)
        # the extracted ecliptic index arithmetic against the model on exact points (no rotation involved: the inner
        # arithmetic is what the theorem is about); the python side evaluates the zero-right sampler, equal by the check above
        for (ny, nx) in [(4, 8), (3, 7), (1, 1)]:
            data = np.arange(ny * nx).reshape(ny, nx)
            for _ in range(20):
                uu = F(rng.randrange(-3000, 3000), 1000) + F(1, 7919)
                vv = F(rng.randrange(-249, 250), 1000) + F(1, 7919)
                r = S.plate_carree_zeroright_sampler(data)(np.array([[float(uu) * TWOPI]]), np.array([[float(vv) * TWOPI]]))
                lines.append(f"sampler ecliptic {nx} {ny} {frs(uu)} {frs(vv)}")
                py.append(f"{int(r[0, 0]) // nx} {int(r[0, 0]) % nx}")
    except Exception as e:
        h.violation("ecliptic:crash", f"ecliptic sampler raised {type(e).__name__}: {e}", input="ecliptic")
    try:
        out = lean_driver(lines)
        diff_streams(h, "index-vs-model", lines, py, out)
    except Exception as e:
        h.corr_fail("index-vs-model", {"error": str(e)[-800:]})
    return h.finish()


if __name__ == "__main__":
    sys.exit(main())
