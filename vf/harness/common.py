"""Common scaffolding for the correspondence / oracle harnesses (run under /venv/bin/python)."""
import argparse
import json
import os
import random
import subprocess
import sys
import time

VERIF = os.environ.get("TOASTY_VERIF_DIR") or os.path.dirname(os.path.dirname(os.path.dirname(os.path.abspath(__file__))))
LEAN = os.path.join(VERIF, "lean")


class Harness:
    def __init__(self, pid, argv=None):
        ap = argparse.ArgumentParser()
        ap.add_argument("--tier", default="quick")
        ap.add_argument("--seed", type=int, default=0)
        ap.add_argument("--mode", default="check", choices=["check", "search", "replay"])
        ap.add_argument("--out")
        ap.add_argument("--replay")
        a = ap.parse_args(argv)
        self.pid, self.tier, self.seed, self.mode, self.out, self.replay = pid, a.tier, a.seed, a.mode, a.out, a.replay
        self.rng = random.Random(f"{pid}-{a.seed}")
        self.t0 = time.time()
        self.evaluations = 0
        self.distinct = set()
        self.samples = []
        self.violations = []
        self.corr = []
        self.dist = {}
        self.correspondence = {}
        self.traces = 0
        self.assumptions = []
        self.rule = ""
        self.exhaustive = None
        self.thorough = a.tier == "thorough"
        # search mode (a proof/correspondence broke) explores more than a quick check
        self.deep = self.thorough or a.mode == "search"

    # ---- bookkeeping
    def case(self, key=None, n=1):
        self.evaluations += n
        if key is not None:
            self.distinct.add(key if isinstance(key, (str, int, tuple)) else repr(key))

    def count(self, table, key, n=1):
        d = self.dist.setdefault(table, {})
        k = str(key)
        d[k] = d.get(k, 0) + n

    def sample(self, obj, cap=8):
        if len(self.samples) < cap:
            self.samples.append(obj)

    def violation(self, key, what, **payload):
        if any(v["key"] == key for v in self.violations):
            return
        self.violations.append({"key": key, "what": what, **payload})

    def corr_fail(self, stream, detail, explained_by=None):
        if len(self.corr) < 20:
            self.corr.append({"stream": stream, "detail": detail, "explained_by": explained_by})

    def corr_ok(self, stream, n=1):
        self.correspondence[stream] = self.correspondence.get(stream, 0) + n

    def finish(self):
        res = {
            "property": self.pid, "evaluations": self.evaluations, "distinct_nontrivial": len(self.distinct),
            "rule": self.rule, "samples": self.samples, "violations": self.violations,
            "correspondence_failures": self.corr, "distribution": self.dist, "correspondence": self.correspondence,
            "traces_validated": self.traces, "assumptions": self.assumptions, "exhaustive": self.exhaustive,
            "wall_s": round(time.time() - self.t0, 2),
        }
        if self.out:
            with open(self.out, "w") as f:
                json.dump(res, f, default=str)
        else:
            json.dump(res, sys.stdout, indent=1, default=str)
        return 0


def lean_driver(lines, timeout=900):
    """Pipe `lines` through the Lean model driver; return the list of output lines."""
    inp = "\n".join(lines) + "\n"
    p = subprocess.run(["lake", "env", "lean", "--run", "Driver.lean"], cwd=LEAN, input=inp, capture_output=True, text=True, timeout=timeout)
    if p.returncode != 0:
        raise RuntimeError("lean driver failed: " + (p.stderr or p.stdout)[-2000:])
    out = p.stdout.splitlines()
    if len(out) != len(lines):
        raise RuntimeError(f"lean driver returned {len(out)} lines for {len(lines)} inputs; tail: {out[-3:]} {p.stderr[-500:]}")
    return out


def diff_streams(h, stream, lines, py_out, lean_out, explain=None, max_report=3):
    """Compare implementation and model outputs line by line."""
    bad = 0
    for l, a, b in zip(lines, py_out, lean_out):
        if a != b:
            bad += 1
            if bad <= max_report:
                h.corr_fail(stream, {"input": l, "impl": a, "model": b}, explained_by=explain(l, a, b) if explain else None)
    h.corr_ok(stream, len(lines) - bad)
    return bad


# ---------------------------------------------------------------------- isolated real-process runs
def _isolated_entry(q, target, args):
    import os
    os.setsid()          # own process group: the watchdog can kill the whole tree, daemons included
    try:
        q.put(("ok", target(*args)))
    except BaseException as e:  # noqa
        q.put(("raised", f"{type(e).__name__}: {e}"))


def run_isolated(target, args=(), timeout=90):
    """Run `target(*args)` in a forked child with its own process group and a watchdog.
    Returns (status, value): status in ok | raised | hang | died."""
    import multiprocessing as mp
    import os
    import signal
    q = mp.Queue()
    p = mp.Process(target=_isolated_entry, args=(q, target, args))
    p.start()
    p.join(timeout)
    if p.is_alive():
        try:
            os.killpg(p.pid, signal.SIGKILL)
        except OSError:
            pass
        p.join(5)
        return "hang", f"no result within {timeout} s"
    try:
        st = q.get(timeout=3)
    except Exception:
        st = ("died", f"exit code {p.exitcode}")
    # reap stragglers of the group (daemonic workers of a child that returned early)
    try:
        os.killpg(p.pid, signal.SIGKILL)
    except OSError:
        pass
    return st
