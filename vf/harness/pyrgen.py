"""Structured generator of pyramids (depth, kind, accept-set, apex) shared by C01/C03/C13,
plus the Python statement of the specification (leaves / live / operations)."""
import itertools


def children(p):
    n, x, y = p
    return [(n + 1, 2 * x, 2 * y), (n + 1, 2 * x + 1, 2 * y), (n + 1, 2 * x, 2 * y + 1), (n + 1, 2 * x + 1, 2 * y + 1)]


def parent(p):
    return (p[0] - 1, p[1] // 2, p[2] // 2)


def anc(p, k):
    s = p[0] - k
    return (k, p[1] >> s, p[2] >> s)


def is_desc(q, p):
    return q[0] >= p[0] and anc(q, p[0]) == p


class PyrCase:
    """kind 'g' (generic) or 't' (TOAST; acc = None means unfiltered, else a set of accepted
    positions at levels >= 1); apex None = no subpyramid() call."""

    def __init__(self, depth, kind, acc=None, apex=None):
        self.depth, self.kind, self.acc, self.apex = depth, kind, acc, apex

    def key(self):
        return (self.depth, self.kind, None if self.acc is None else tuple(sorted(self.acc)), self.apex)

    def line(self):
        ap = self.apex or (0, 0, 0)
        a = "%d %d.%d.%d" % (self.depth, ap[0], ap[1], ap[2])
        if self.kind == "g":
            return a + " g"
        if self.acc is None:
            return a + " t *"
        if not self.acc:
            return a + " t -"
        return a + " t " + ";".join("%d.%d.%d" % p for p in sorted(self.acc))

    def build(self):
        from toasty.pyramid import Pyramid, Pos
        if self.kind == "g":
            p = Pyramid.new_generic(self.depth)
        elif self.acc is None:
            p = Pyramid.new_toast(self.depth)
        else:
            acc = self.acc
            p = Pyramid.new_toast_filtered(self.depth, lambda t: (t.pos.n, t.pos.x, t.pos.y) in acc)
        if self.apex is not None:
            p.subpyramid(Pos(*self.apex))
        return p

    # ---------------- specification
    def accepted(self, p):
        return self.kind == "g" or self.acc is None or p in self.acc

    def reachable(self, p):
        """every ancestor-or-self at levels 1..n accepted"""
        return all(self.accepted(anc(p, k)) for k in range(1, p[0] + 1))

    def spec(self):
        ap = self.apex or (0, 0, 0)
        d = self.depth
        leaves = []

        def rec(p):
            if p[0] >= 1 and not self.accepted(p):
                return
            if p[0] == d:
                leaves.append(p)
                return
            for c in children(p):
                rec(c)
        if ap[0] == 0 or self.reachable(ap):
            rec(ap) if ap[0] == 0 or True else None
        # rec(ap) re-tests acceptance of ap itself when ap.n>=1: fine (reachable implies accepted)
        live = set()
        for l in leaves:
            for k in range(ap[0], d + 1):
                live.add(anc(l, k))
        ops = {p for p in live if p[0] < d}
        return leaves, live, ops


def random_acc(rng, depth, style):
    """hierarchical accept-set over levels 1..depth"""
    acc = set()
    frontier = [(0, 0, 0)]
    for lvl in range(1, depth + 1):
        nxt = []
        for p in frontier:
            for c in children(p):
                if style == "dense":
                    keep = rng.random() < 0.85
                elif style == "sparse":
                    keep = rng.random() < 0.4
                elif style == "path":
                    keep = rng.random() < 0.3
                else:  # "gappy": accept tiles but often none of their children
                    keep = rng.random() < (0.7 if lvl < depth else 0.25)
                if keep:
                    acc.add(c)
                    nxt.append(c)
        if style == "path" and not nxt and frontier:
            c = rng.choice(children(rng.choice(frontier)))
            acc.add(c)
            nxt = [c]
        frontier = nxt
    # unreachable accepted positions (must be ignored by the code)
    if depth >= 2 and rng.random() < 0.3:
        acc.add((depth, rng.randrange(2 ** depth), rng.randrange(2 ** depth)))
    return acc


def random_apex(rng, depth, acc=None):
    r = rng.random()
    if r < 0.35:
        return None
    n = rng.randint(0, depth)
    if acc and rng.random() < 0.6:
        cands = [p for p in acc if p[0] == n]
        if cands:
            return rng.choice(sorted(cands))
    return (n, rng.randrange(2 ** n), rng.randrange(2 ** n))


def gap_cases(rng, n):
    """depth-3 TOAST pyramids in which a live level-1 tile has two or three live level-2 children *and* an accepted level-2
    child with no accepted leaf (a dead "gap" tile), the gap tile in a chosen place of the yield order — state carried
    from a dead tile to the next yielded tile is what these exercise"""
    out = []
    for _ in range(n):
        top = (1, rng.randrange(2), rng.randrange(2))
        kids = children(top)
        gap_at = rng.choice([3, 3, 2, 0])
        acc = {top}
        for i, c in enumerate(kids):
            if i == gap_at:
                acc.add(c)                                   # accepted, none of its children accepted
            elif rng.random() < 0.85 or i == (gap_at + 1) % 4 or i == (gap_at + 2) % 4:
                acc.add(c)
                leaves = [l for l in children(c) if rng.random() < 0.6] or [rng.choice(children(c))]
                acc.update(leaves)
        # sometimes a second, fully live level-1 tile
        if rng.random() < 0.5:
            other = (1, 1 - top[1], top[2])
            acc.add(other)
            c = rng.choice(children(other))
            acc.add(c)
            acc.add(rng.choice(children(c)))
        pc = PyrCase(3, "t", acc, None)
        pc.tag = "gap"
        out.append(pc)
    return out


def cases(rng, n_random, max_depth, exhaustive_depth1=True):
    out = []
    if exhaustive_depth1:
        lv1 = [(1, 0, 0), (1, 1, 0), (1, 0, 1), (1, 1, 1)]
        for r in range(5):
            for sub in itertools.combinations(lv1, r):
                for apex in [None, (0, 0, 0)] + lv1:
                    out.append(PyrCase(1, "t", set(sub), apex))
        for d in (0, 1, 2):
            for kind in ("g", "t"):
                aps = [None] + [(n, x, y) for n in range(d + 1) for x in range(2 ** n) for y in range(2 ** n)]
                for apex in aps:
                    out.append(PyrCase(d, kind, None, apex))
        out.append(PyrCase(0, "t", set(), None))
        out.append(PyrCase(2, "t", {(1, 1, 0)}, None))          # accepts a tile, none of its children
        out.append(PyrCase(3, "t", {(1, 1, 0), (2, 2, 0)}, (1, 1, 0)))
        out.append(PyrCase(2, "t", {(1, 0, 0), (2, 0, 0)}, (1, 1, 1)))  # filter disjoint from sub-pyramid
    if max_depth >= 3:
        out.extend(gap_cases(rng, 3 if n_random < 100 else 8))
    for _ in range(n_random):
        d = rng.choice([1, 2, 2, 3, 3, 3, 4, 4, 5][: max(1, 2 * max_depth - 1)])
        d = min(d, max_depth)
        kind = rng.choice(["g", "t", "t", "t"])
        acc = None
        if kind == "t" and rng.random() < 0.85:
            acc = random_acc(rng, d, rng.choice(["dense", "sparse", "path", "gappy"]))
        apex = random_apex(rng, d, acc)
        out.append(PyrCase(d, kind, acc, apex))
    return out
