"""C03 harness: the four hand-off stages of toasty run under deterministic schedules (simmp);
traces are replayed through the Lean transition system; real-multiprocessing smoke runs."""
import multiprocessing as mp
import os
import re
import sys
import tempfile
import time

from .common import Harness, lean_driver, diff_streams
from . import pyrgen
from .. import simmp


# ---------------------------------------------------------------------- the four stages, with recording stubs
class Item:
    def __init__(self, label):
        self.sim_label = label


def stage_visit(case, parallel, log):
    """Pyramid.visit_leaves on a generated pyramid; item label = position"""
    pyr = case.build()

    def cb(pos, tile):
        simmp.step_point("cb", f"({pos.n},{pos.x},{pos.y})")
        log.append(((pos.n, pos.x, pos.y), tile))
    pyr.visit_leaves(cb, parallel=parallel)


def stage_transform(depth, parallel, log):
    from toasty import transform

    def make_buf():
        return None

    def do_one(buf, pos, pio_in, pio_out):
        simmp.step_point("cb", f"({pos.n},{pos.x},{pos.y})")
        log.append(((pos.n, pos.x, pos.y), None))
    transform._do_a_transform(None, depth, make_buf, do_one, parallel=parallel)


class StubPio:
    def get_default_vertical_parity_sign(self):
        return -1

    def clean_lockfiles(self, level):
        pass


class StubTiling:
    _tile_levels = 0

    def generate_populated_positions(self):
        return iter(())


class StubDesc:
    def __init__(self):
        self.sub_tiling = StubTiling()
        self.chunks = []
        self.imin = self.imax = 0


class StubImage:
    def __init__(self, label, log):
        self.sim_label = label
        self.log = log
        self.height = 1
        self.wcs = None

    def get_parity_sign(self):          # first thing multi_tan's worker does with an item
        simmp.step_point("cb", self.sim_label)
        self.log.append((self.sim_label, None))
        return -1

    def asarray(self):                  # first thing multi_wcs's worker does with an item
        simmp.step_point("cb", self.sim_label)
        self.log.append((self.sim_label, None))
        return None

    def flip_parity(self):
        pass


class StubCollection:
    def __init__(self, imgs):
        self.imgs = imgs

    def images(self):
        return iter(self.imgs)


def stage_multi_tan(nitems, parallel, log):
    from toasty import multi_tan
    proc = multi_tan.MultiTanProcessor.__new__(multi_tan.MultiTanProcessor)
    imgs = [StubImage(f"img{i}", log) for i in range(nitems)]
    proc._collection = StubCollection(imgs)
    proc._descs = [StubDesc() for _ in imgs]
    proc._tiling = StubTiling()
    # through the public wrapper: it resolves the parallelism and hands (pio, cli_progress, parallel) to the stage
    proc.tile(StubPio(), parallel=parallel, cli_progress=False)


def stage_multi_wcs(nitems, parallel, log):
    from toasty import multi_wcs
    proc = multi_wcs.MultiWcsProcessor.__new__(multi_wcs.MultiWcsProcessor)
    imgs = [StubImage(f"img{i}", log) for i in range(nitems)]
    proc._collection = StubCollection(imgs)
    proc._descs = [StubDesc() for _ in imgs]
    proc._combined_wcs = None
    proc._tiling = StubTiling()
    proc.tile(StubPio(), lambda *a, **k: None, parallel=parallel, cli_progress=False)


# ---------------------------------------------------------------------- trace -> Lean labels
def to_labels(trace):
    """simmp trace lines -> (items in production order, model labels, unknown lines)"""
    items, labels, unknown = [], [], []
    idx = {}

    def wid(name):
        return int(name[1:]) - 1
    for line in trace:
        t = line.split()
        who, kind = t[0], t[1]
        if who == "M":
            if kind == "start":
                labels.append(f"start:{wid(t[2])}")
            elif kind == "put":
                lab = t[3]
                idx.setdefault(lab, len(idx))
                items.append(idx[lab])
                labels.append(f"put:{idx[lab]}")
            elif kind == "close":
                labels.append("close")
            elif kind == "join-thread":
                labels.append("jt")
            elif kind == "set-flag" and t[2] == "e0":
                labels.append("set")
            elif kind == "flag?" and t[2] == "e1":
                pass        # the parent's final look at the error flag (C19)
            elif kind == "join":
                labels.append(f"join:{wid(t[2])}")
            else:
                unknown.append(line)
        elif who == "F":
            labels.append("flush")
        elif who.startswith("W"):
            k = wid(who)
            if kind == "begin":
                labels.append(f"begin:{k}")
            elif kind == "flag?" and t[2] == "e0":
                labels.append(f"fq:{k}:{1 if t[3] == 'true' else 0}")
            elif kind == "rlock":
                labels.append(f"rl:{k}")
            elif kind == "rlock-timeout":
                labels.append(f"rt:{k}")
            elif kind == "recv":
                labels.append(f"rv:{k}:{idx.get(t[3], 999)}")
            elif kind == "empty":
                labels.append(f"em:{k}")
            elif kind == "cb":
                labels.append(f"cb:{k}:{idx.get(t[2], 999)}")
            elif kind == "raised":
                unknown.append(line)
            else:
                unknown.append(line)
        else:
            unknown.append(line)
    return items, labels, unknown, idx


def run_sim(fn, chooser, max_steps=6000):
    return simmp.simulate(fn, chooser, max_steps=max_steps, hang_window=300)


def _real_target(case, parallel):
    import toasty.par_util
    toasty.par_util.SHOW_INFORMATIONAL_MESSAGES = False
    d = tempfile.mkdtemp(prefix="vfc03r_")
    try:
        def cb(pos, tile):
            open(os.path.join(d, f"{pos.n}_{pos.x}_{pos.y}_{os.getpid()}_{time.monotonic_ns()}"), "w").close()
        case.build().visit_leaves(cb, parallel=parallel)
        names = os.listdir(d)
        return sorted(tuple(int(v) for v in n.split("_")[:3]) for n in names)
    finally:
        import shutil
        shutil.rmtree(d, ignore_errors=True)


def real_visit(case, parallel, timeout=60):
    from .common import run_isolated
    st, val = run_isolated(_real_target, (case, parallel), timeout)
    if st == "ok":
        return val
    return f"{st}: {val}"


def main():
    h = Harness("C03")
    rng = h.rng
    from toasty.toast import create_single_tile
    from toasty.pyramid import Pos
    import numpy as np
    import toasty.par_util
    toasty.par_util.SHOW_INFORMATIONAL_MESSAGES = False
    h.rule = ("stages: visit_leaves (generated pyramids: depth, filter, sub-pyramid), transform, multi_tan, multi_wcs (stub items); workers 2-4; "
              "schedules drawn from one PRNG with varying bias towards time-outs and late feeder flushes, plus bounded exhaustive enumeration for tiny configurations when searching; "
              "every trace replayed through the Lean transition system; non-trivial = schedule with at least one time-out before the flag is raised; distinct by trace")
    lines, py = [], []
    nsched = 400 if h.deep else 110
    cases = [c for c in pyrgen.cases(rng, 60, 3, exhaustive_depth1=False) if c.spec()[0]]
    extra = [pyrgen.PyrCase(1, "g"), pyrgen.PyrCase(2, "g"), pyrgen.PyrCase(1, "t"), pyrgen.PyrCase(2, "t", None, (1, 1, 0))]
    stage_names = ["visit", "visit", "visit", "transform", "multi_tan", "multi_wcs"]
    subseq = [pyrgen.PyrCase(2, "t", None, (1, 0, 0)), pyrgen.PyrCase(2, "t", None, (1, 1, 0)), pyrgen.PyrCase(3, "t", None, (2, 3, 3)),
              pyrgen.PyrCase(2, "t", None, (1, 0, 1)), pyrgen.PyrCase(3, "t", None, (2, 1, 2)), pyrgen.PyrCase(2, "t", None, (1, 1, 1))]

    def one(stage, par, chooser, case=None, n=None):
        log = []
        if stage == "visit":
            fn = lambda: stage_visit(case, par, log)
            expect = sorted(case.spec()[0])
            desc = f"visit_leaves[{case.line()}]"
        elif stage == "transform":
            fn = lambda: stage_transform(n, par, log)
            expect = sorted((a, b, c) for a in range(n + 1) for b in range(2 ** a) for c in range(2 ** a))
            desc = f"transform[depth {n}]"
        elif stage == "multi_tan":
            fn = lambda: stage_multi_tan(n, par, log)
            expect = sorted(f"img{i}" for i in range(n))
            desc = f"multi_tan[{n} images]"
        else:
            fn = lambda: stage_multi_wcs(n, par, log)
            expect = sorted(f"img{i}" for i in range(n))
            desc = f"multi_wcs[{n} images]"
        sim = run_sim(fn, chooser)
        return sim, log, expect, desc

    def judge(stage, par, sim, log, expect, desc, how):
        got = sorted(x[0] for x in log)
        alive = list(sim.alive_at_return)
        bad = None
        if sim.outcome in ("hang", "deadlock", "max-steps"):
            bad = f"did not terminate ({sim.outcome}) under the schedule"
        elif sim.outcome == "exception":
            bad = f"raised {type(sim.main.exc).__name__}: {sim.main.exc}"
        elif got != expect:
            missing = [x for x in expect if x not in got]
            dup = sorted({x for x in got if got.count(x) > 1})
            bad = f"returned having processed {len(got)} of {len(expect)} items (never processed: {missing[:4]}; more than once: {dup[:4]})"
        elif alive:
            bad = f"returned while workers {alive} were still running"
        if bad:
            h.violation(f"{stage}:{'loss' if 'never processed' in (bad or '') else 'other'}", f"{desc}, {par} workers, {how}: {bad}",
                        input={"stage": stage, "workers": par, "choices": sim.choices[:400], "trace": sim.trace[:120]}, observed=bad)
        return bad

    for si in range(nsched):
        stage = stage_names[si % len(stage_names)]
        par = rng.choice([2, 2, 3, 4])
        tw = rng.choice([0.02, 0.08, 0.3, 1.0])
        fw = rng.choice([1.0, 0.3, 0.05])
        chooser = simmp.RandomChooser(rng.randrange(2 ** 31), timeout_weight=tw, feeder_weight=fw)
        if si % 7 >= 5:
            # priority-based schedules (a process parked at one point while the others run a long stretch)
            tw, fw = "pct", "pct"
            chooser = simmp.PCTChooser(rng.randrange(2 ** 31), depth=rng.choice([1, 2, 3, 4]), timeout_prob=rng.choice([0.3, 0.7]))
        if stage == "visit":
            case = rng.choice(cases + extra)
            if si // len(stage_names) < len(subseq):
                # one process visits several TOAST sub-pyramids one after another (whatever a pyramid retains from an earlier
                # restriction must not leak into the next)
                case = subseq[si // len(stage_names)]
            sim, log, expect, desc = one(stage, par, chooser, case=case)
        else:
            n = rng.choice([0, 1, 1, 2, 3]) if stage == "transform" else rng.choice([1, 2, 3, 5])
            sim, log, expect, desc = one(stage, par, chooser, n=n)
        bad = judge(stage, par, sim, log, expect, desc, f"random schedule (timeout weight {tw}, feeder weight {fw})")
        # tile geometry handed to leaf visits
        if stage == "visit" and not bad and case.kind == "t":
            for (pos, tile) in log:
                if pos[0] >= 1:
                    ref = create_single_tile(Pos(*pos))
                    if tile is None or (tile.pos.n, tile.pos.x, tile.pos.y) != pos or not np.array_equal(np.asarray(tile.corners), np.asarray(ref.corners)) or tile.increasing != ref.increasing:
                        h.violation("visit:geometry", f"{desc}: leaf {pos} was delivered with another tile's geometry", input={"case": case.line(), "pos": pos})
                        break
        items, labels, unknown, idx = to_labels(sim.trace)
        pre_flag = sim.trace[: sim.trace.index("M set-flag e0")] if "M set-flag e0" in sim.trace else sim.trace
        nontriv = any((" empty " in l or "rlock-timeout" in l) for l in pre_flag)
        h.case(tuple(sim.choices) if nontriv else None)
        h.count("stage", stage)
        h.count("workers", par)
        h.count("outcome", sim.outcome)
        h.count("timeouts_before_flag", min(5, sum(1 for l in pre_flag if " empty " in l or "rlock-timeout" in l)))
        if unknown:
            h.corr_fail("trace-replay", {"input": desc, "impl": unknown[:3], "model": "step not in the model's alphabet"})
        elif sim.outcome == "ok":
            cap = {"visit": 2, "transform": 16, "multi_tan": 2, "multi_wcs": 2}[stage] * par
            allitems = list(range(len(idx)))
            lines.append(f"stage {par} {cap} 1 {','.join(map(str, allitems)) if allitems else '-'} " + " ".join(labels))
            proc = ",".join(f"{idx.get(lab(x), 999)}@{w}" for x, w in processed_with_workers(sim.trace, idx))
            py.append(f"ok returned exited=true processed={proc} left=0")
            h.traces += 1
        if si < 2:
            h.sample({"stage": desc, "workers": par, "trace": sim.trace[:25]})
    # ---- the original race, as a directed schedule: must be harmless on the current code
    try:
        log = []
        labels_ = ["M start W1", "M start W2", "W1 begin", "W2 begin"]
        sim = run_sim(lambda: stage_visit(pyrgen.PyrCase(1, "g"), 2, log),
                      simmp.RandomChooser(7, timeout_weight=5.0, feeder_weight=0.01))
        judge("visit", 2, sim, log, sorted(pyrgen.PyrCase(1, "g").spec()[0]), "visit_leaves[1 g]", "time-out-heavy, feeder-starved schedule")
        h.case(("directed",))
    except Exception as e:
        h.corr_fail("trace-replay", {"error": f"directed schedule: {e}"})
    # ---- bounded exhaustive enumeration (small configuration) when searching / thorough
    if h.deep:
        budget = 1500
        nruns = 0

        def make(chooser):
            log = []
            sim = run_sim(lambda: stage_multi_tan(1, 2, log), chooser, max_steps=400)
            v = None
            if sim.outcome != "ok" or sorted(x[0] for x in log) != ["img0"]:
                v = f"outcome {sim.outcome}, processed {sorted(x[0] for x in log)}"
            return sim, v
        for choices, sim, verdict in simmp.explore(make, max_runs=budget, max_depth=60):
            nruns += 1
            if verdict and sim.outcome != "max-steps":
                h.violation("multi_tan:loss", f"multi_tan[1 image], 2 workers, enumerated schedule #{nruns}: {verdict}", input={"choices": choices, "trace": sim.trace[:80]})
                break
        h.case(("exhaustive", nruns), n=nruns)
        h.count("exhaustive_runs", nruns)
    # ---- real multiprocessing smoke runs
    for case in [pyrgen.PyrCase(2, "g"), pyrgen.PyrCase(2, "t", {(1, 0, 0), (1, 1, 1), (2, 0, 0), (2, 1, 1), (2, 3, 3), (2, 2, 2)}, None),
                 pyrgen.PyrCase(3, "t", None, (1, 1, 0))][: (3 if h.deep else 2)]:
        r = real_visit(case, 3)
        exp = sorted(case.spec()[0])
        h.case(("real", case.line()))
        if r != exp:
            h.violation("real:visit", f"visit_leaves[{case.line()}] with 3 real worker processes: {('processed ' + str(len(r)) + ' of ' + str(len(exp)) + ' leaves') if isinstance(r, list) else r}", input=case.line())
    try:
        if lines:
            out = lean_driver(lines)
            diff_streams(h, "trace-replay", [l[:300] for l in lines], py, out)
    except Exception as e:
        h.corr_fail("trace-replay", {"error": str(e)[-800:]})
    return h.finish()


def lab(x):
    return x if isinstance(x, str) else "(%d,%d,%d)" % x


def processed_with_workers(trace, idx):
    out = []
    for line in trace:
        t = line.split()
        if t[0].startswith("W") and t[1] == "cb":
            out.append((t[2], int(t[0][1:]) - 1))
    return out


if __name__ == "__main__":
    sys.exit(main())
