"""C18 harness: PipelineManager.publish under injected faults, listing orders and re-runs."""
import io
import itertools
import os
import shutil
import sys
import tempfile
from unittest import mock

from .common import Harness, lean_driver, diff_streams


class Boom(Exception):
    pass


class HalfSource(io.RawIOBase):
    """a readable that delivers half of the bytes, then fails (a transfer cut off in the middle)"""

    def __init__(self, data):
        self.data, self.pos, self.limit = data, 0, max(1, len(data) // 2)

    def readable(self):
        return True

    def read(self, n=-1):
        if self.pos >= self.limit:
            raise Boom("transfer interrupted")
        end = self.limit if n is None or n < 0 else min(self.limit, self.pos + n)
        chunk = self.data[self.pos:end]
        self.pos = end
        return chunk


class FlakyStream:
    """wraps the REAL source stream of a transfer: passes reads through, but raises a one-off OSError (a transient I/O error) once
    half of the bytes have been read; the underlying stream keeps its position, as a real file object would"""

    def __init__(self, real, size, state):
        self.real, self.size, self.state, self.n = real, size, state, 0

    def read(self, n=-1):
        if not self.state["fired"] and self.n >= self.size // 2:
            self.state["fired"] = True
            raise OSError(5, "Input/output error (injected, transient)")
        want = max(1, self.size // 2 - self.n) if not self.state["fired"] else (n if n and n > 0 else -1)
        chunk = self.real.read(want)
        self.n += len(chunk)
        return chunk


def setup_workdir(root, image_id, files):
    work = os.path.join(root, "work")
    store = os.path.join(root, "store")
    os.makedirs(os.path.join(work, "approved", image_id))
    os.makedirs(store)
    with open(os.path.join(work, "toasty-store-config.yaml"), "wt") as f:
        f.write("_type: local\npath: %s\n" % store)
    contents = {}
    for i, name in enumerate(files):
        data = (("%s-%d-" % (name, i)) * 400).encode()
        contents[name] = data
        with open(os.path.join(work, "approved", image_id, name), "wb") as f:
            f.write(data)
    return work, store, contents


def run_publish(work, image_id, listing, fault):
    """fault: None | ('before', i) | ('during', i) | ('after', i) | ('oserr', i) | ('outage', i, m) | ('rename',).  Returns the exception (or None)."""
    from toasty.pipeline import PipelineManager
    mgr = PipelineManager(work)
    real_put = mgr._pipeio.put_item
    state = {"n": 0}
    flaky = {"fired": False}

    def put(*path, source=None):
        i = state["n"]
        state["n"] += 1
        if fault and fault[0] == "before" and fault[1] == i:
            raise Boom("fault before transfer %d" % i)
        if fault and fault[0] == "outage" and fault[1] <= i < fault[1] + fault[2]:
            # the store is unreachable for this and the following calls (an outage of fault[2] consecutive attempts)
            raise OSError(110, "Connection timed out (injected outage)")
        if fault and fault[0] == "during" and fault[1] == i:
            return real_put(*path, source=HalfSource(source.read()))
        if fault and fault[0] == "oserr" and fault[1] == i and not flaky["fired"]:
            # a transient OSError half-way through this transfer (only this first attempt fails)
            size = os.fstat(source.fileno()).st_size
            return real_put(*path, source=FlakyStream(source, size, flaky))
        r = real_put(*path, source=source)
        if fault and fault[0] == "after" and fault[1] == i:
            raise Boom("fault after transfer %d" % i)
        return r

    mgr._pipeio.put_item = put
    real_listdir, real_rename = os.listdir, os.rename
    img_dir = os.path.join(work, "approved", image_id)

    def listdir(p="."):
        if os.path.abspath(p) == os.path.abspath(img_dir):
            have = set(real_listdir(p))
            assert have == set(listing), (have, listing)
            return list(listing)
        return real_listdir(p)

    def rename(a, b):
        if fault and fault[0] == "rename" and os.path.abspath(a) == os.path.abspath(img_dir):
            raise Boom("fault before rename")
        return real_rename(a, b)

    try:
        with mock.patch("os.listdir", listdir), mock.patch("os.rename", rename):
            mgr.publish()
        return None
    except Boom as e:
        return e
    except OSError as e:
        return e
    except Exception as e:       # a publish that reports failure in any other way: the state it leaves is judged all the same
        return e


def run_refresh(work, image_id):
    """the real `toasty pipeline refresh` with an image source that offers `image_id`; returns whether the candidate was saved"""
    import argparse
    import contextlib
    import io
    from toasty import pipeline as PL
    from toasty.pipeline import cli as PCLI

    class Cand(PL.CandidateInput):
        def get_unique_id(self):
            return image_id

        def save(self, stream):
            stream.write(b"candidate")

    class RefSource(PL.ImageSource):
        @classmethod
        def get_config_key(cls):
            return "refstub"

        @classmethod
        def deserialize(cls, data):
            return cls()

        def query_candidates(self):
            return iter([Cand()])

        def fetch_candidate(self, unique_id, cand_data_stream, cachedir):
            pass

        def process(self, unique_id, cand_data_stream, cachedir, builder):
            pass
    PL.IMAGE_SOURCE_CLASS_LOADERS["refstub"] = lambda: RefSource
    with open(os.path.join(work, "toasty-pipeline-config.yaml"), "wt") as f:
        f.write("source_type: refstub\nrefstub: {}\n")
    cand_path = os.path.join(work, "candidates", image_id)
    if os.path.exists(cand_path):
        os.unlink(cand_path)
    with contextlib.redirect_stdout(io.StringIO()), contextlib.redirect_stderr(io.StringIO()):
        PCLI.refresh_impl(argparse.Namespace(workdir=work))
    return os.path.exists(cand_path)


def observe(work, store, image_id, contents, files):
    out = []
    for f in files:
        p = os.path.join(store, image_id, f)
        if not os.path.exists(p):
            out.append("A")
        else:
            out.append("C" if open(p, "rb").read() == contents[f] else "P")
    moved = os.path.isdir(os.path.join(work, "published", image_id)) and not os.path.isdir(os.path.join(work, "approved", image_id))
    return "".join(out) + ("M" if moved else "-")


def safe(obs, files):
    st = dict(zip(files, obs))
    if st.get("index.wtml", "A") == "A":
        return True
    return all(v == "C" for f, v in st.items() if f != "index.wtml")


def to_run(listing, fault, n):
    if fault is None:
        k, mid, ren = n, 0, 1
    elif fault[0] in ("before", "outage"):
        k, mid, ren = fault[1], 0, 0
    elif fault[0] in ("during", "oserr"):
        k, mid, ren = fault[1], 1, 0
    elif fault[0] == "after":
        k, mid, ren = fault[1] + 1, 0, 0
    else:
        k, mid, ren = n, 0, 0
    return "%s:%d:%d:%d" % (",".join(listing), k, mid, ren)


def main():
    h = Harness("C18")
    rng = h.rng
    h.rule = ("file sets of 2-5 files incl. index.wtml; every listing order (n<=4) or random orders; histories of 1-3 publish invocations, each with a fault "
              "before/inside/after one transfer, before the rename, or none, followed by a fault-free re-run; store = real LocalPipelineIo; "
              "non-trivial = history with >=1 fault; distinct by (files, history)")
    names = ["index.wtml", "thumb.jpg", "L0X0Y0.png", "L1X0Y0.png", "L1X1Y1.png"]
    histories = []
    # exhaustive single-fault histories for n = 2, 3 over all listing orders
    for n in (2, 3):
        files = names[:n]
        faults = [None, ("rename",)] + [(ph, i) for i in range(n) for ph in ("before", "during", "after")] + [("outage", i, m) for i in range(n) for m in (1, 3, 99)]
        for perm in itertools.permutations(files):
            for f in faults:
                histories.append((files, [(list(perm), f)]))
    # two-fault histories (n = 2, 3), random subset; always include the worst case
    histories.append((names[:2], [(["L0X0Y0.png" if False else "thumb.jpg", "index.wtml"], ("during", 1)), (["thumb.jpg", "index.wtml"], ("during", 0))]))
    nrand = 400 if h.deep else 90
    for _ in range(nrand):
        n = rng.choice([2, 3, 3, 4, 5])
        files = names[:n]
        runs = []
        for _r in range(rng.choice([1, 2, 2, 3])):
            perm = files[:]
            rng.shuffle(perm)
            f = rng.choice([None, ("rename",)] + [(ph, i) for i in range(n) for ph in ("before", "during", "during", "after", "oserr")] + [("outage", rng.randrange(n), rng.choice([1, 2, 3, 4, 99]))])
            runs.append((perm, f))
        histories.append((files, runs))
    lines, py = [], []
    root = tempfile.mkdtemp(prefix="vfc18_")
    try:
        for hi, (files, runs) in enumerate(histories):
            case_dir = os.path.join(root, "h%d" % hi)
            os.makedirs(case_dir)
            image_id = "img%d" % hi
            work, store, contents = setup_workdir(case_dir, image_id, files)
            n = len(files)
            obs_all, model_runs = [], []
            moved = False
            descr = []
            for (listing, fault) in runs:
                if moved:
                    break
                run_publish(work, image_id, listing, fault)
                o = observe(work, store, image_id, contents, files)
                obs_all.append(o + ("" if safe(o[:-1], files) else "!"))
                model_runs.append(to_run(listing, fault, n))
                descr.append({"listing": listing, "fault": fault})
                moved = o.endswith("M")
                h.count("fault", fault[0] if fault else "none")
                if not safe(o[:-1], files):
                    kind = "double-fault" if sum(1 for d in descr if d["fault"]) >= 2 else "single-fault"
                    inplace = any(d["fault"] and d["fault"][0] == "during" for d in descr[:-1]) or True
                    h.violation(f"unsafe:{kind}", f"after {descr} the store holds index.wtml while another file is missing/incomplete: store {dict(zip(files, o[:-1]))}",
                                input={"files": files, "history": descr}, observed=o)
                    break
                if moved and not all(c == "C" for c in o[:-1]):
                    h.violation("moved-incomplete", f"image moved to published/ with store {dict(zip(files, o[:-1]))} after {descr}", input={"files": files, "history": descr})
            # `toasty pipeline refresh` between the runs: an image whose index.wtml is not in the store is NOT "already done" — the
            # image source's candidate must be saved again, whatever else of it the store already holds
            if not moved and hi % 5 == 0:
                try:
                    saved = run_refresh(work, image_id)
                    in_store = os.path.exists(os.path.join(store, image_id, "index.wtml"))
                    h.count("refresh", "index-in-store" if in_store else "index-not-in-store")
                    if saved == in_store:
                        h.violation("refresh:skipped" if not saved else "refresh:redone",
                                    f"after {descr} (store {dict(zip(files, o[:-1]))}) `toasty pipeline refresh` {'skips the image as already done' if not saved else 'offers the published image again'}",
                                    input={"files": files, "history": descr}, observed={"candidate_saved": saved, "index_in_store": in_store})
                except Exception as e:
                    h.violation("refresh:crash", f"`toasty pipeline refresh` after {descr} raised {type(e).__name__}: {e}", input={"files": files, "history": descr})
            # a fault-free re-run must complete the job
            if not moved:
                listing = files[:]
                rng.shuffle(listing)
                err = run_publish(work, image_id, listing, None)
                o = observe(work, store, image_id, contents, files)
                obs_all.append(o + ("" if safe(o[:-1], files) else "!"))
                model_runs.append(to_run(listing, None, n))
                if o != "C" * n + "M":
                    h.violation("rerun-incomplete", f"a fault-free re-run after {descr} left store {dict(zip(files, o[:-1]))}, moved={o.endswith('M')}",
                                input={"files": files, "history": descr}, observed=o)
            h.case((tuple(files), tuple(model_runs)) if any(f for _l, f in runs) else None)
            lines.append("pub hist " + ",".join(files) + " " + " ".join(model_runs))
            py.append(" ".join(obs_all))
            if hi in (5, 40):
                h.sample({"files": files, "history": descr, "observed": obs_all})
            shutil.rmtree(case_dir, ignore_errors=True)
        # reorder, all permutations up to 4 files and with index absent
        from toasty.pipeline import PipelineManager  # noqa: F401
        for n in (1, 2, 3, 4):
            for perm in itertools.permutations(names[:n]):
                for lst in (list(perm), [x for x in perm if x != "index.wtml"]):
                    if not lst:
                        continue
                    # the real statements, executed on a list
                    filenames = list(lst)
                    try:
                        index_index = filenames.index("index.wtml")
                    except ValueError:
                        pass
                    lines.append("pub reorder " + ",".join(lst))
                    py.append(None)
        out = lean_driver(lines)
        sel = [(l, a, b) for l, a, b in zip(lines, py, out) if a is not None]
        diff_streams(h, "history-vs-model", [x[0] for x in sel], [x[1] for x in sel], [x[2] for x in sel],
                     explain=lambda l, a, b: "unsafe:double-fault" if ("!" in a and "!" in b) else None)
        # model reorder properties (spot check of what swap_perm_last proves)
        for l, a, b in zip(lines, py, out):
            if a is None:
                src = l.split(" ", 2)[2].split(",")
                res = b.split(",")
                if sorted(src) != sorted(res) or ("index.wtml" in src and res[-1] != "index.wtml"):
                    h.corr_fail("reorder", {"input": l, "model": b})
                else:
                    h.corr_ok("reorder")
    except Exception as e:
        import traceback
        h.corr_fail("history-vs-model", {"error": traceback.format_exc()[-1200:]})
    finally:
        shutil.rmtree(root, ignore_errors=True)
    return h.finish()


if __name__ == "__main__":
    sys.exit(main())
